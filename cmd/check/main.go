// Command check is the driver: it instruments the current /repo working tree
// into a scratch overlay, builds the worker, fans seeds out over worker
// processes, classifies and minimises violations, writes replay files and the
// evidence file.
//
//	check run <PROP> [--tier quick|thorough] [--runs N] [--budget SEC]
//	check replay <file>
//	check determinism <PROP> [--seeds N]
//
// Exit codes: 0 property held on everything explored (known findings are
// printed as KNOWN-FINDING lines), 1 violation (VIOLATION line), 2 tooling
// trouble (build failure, watchdog, nondeterminism) - never printed as
// VIOLATION.
package main

import (
	"bufio"
	"bytes"
	"encoding/json"
	"flag"
	"fmt"
	"os"
	"os/exec"
	"path/filepath"
	"regexp"
	"runtime"
	"sort"
	"strconv"
	"strings"
	"sync"
	"time"
)

const verifDir = "/verif"

var repoDir = "/repo"

type Plan struct {
	Prop     string            `json:"prop"`
	Seed     int64             `json:"seed"`
	Tier     string            `json:"tier,omitempty"`
	Strategy int               `json:"strategy"`
	PoolDrop int               `json:"pool_drop,omitempty"`
	Cfg      json.RawMessage   `json:"cfg"`
	Ops      []json.RawMessage `json:"ops"`
	Tape     []int             `json:"tape,omitempty"`
	Avoid    []string          `json:"avoid,omitempty"`
	LimitMs  int64             `json:"limit_ms,omitempty"`
	MaxSteps int               `json:"max_steps,omitempty"`
	Variant  string            `json:"variant,omitempty"`
	Soak     bool              `json:"soak,omitempty"`
}

type Violation struct {
	Class string  `json:"class"`
	Sig   string  `json:"sig"`
	Msg   string  `json:"msg"`
	AtMs  float64 `json:"at_ms"`
}

type Outcome struct {
	Prop       string         `json:"prop"`
	Seed       int64          `json:"seed"`
	Hash       string         `json:"hash"`
	Steps      int            `json:"steps"`
	Switches   int            `json:"switches"`
	SimMs      float64        `json:"sim_ms"`
	Goroutines int            `json:"goroutines"`
	Strategy   string         `json:"strategy"`
	Violations []Violation    `json:"violations,omitempty"`
	Faults     map[string]int `json:"faults,omitempty"`
	Probes     map[string]int `json:"probes,omitempty"`
	Checks     int            `json:"checks"`
	Truncated  bool           `json:"truncated,omitempty"`
	Stranded   []string       `json:"stranded,omitempty"`
	Stuck      []string       `json:"stuck,omitempty"`
	Sample     string         `json:"sample,omitempty"`
	Plan       *Plan          `json:"plan,omitempty"`
	Trace      []string       `json:"trace,omitempty"`
	Tooling    string         `json:"tooling,omitempty"`
	Sites      int            `json:"sites"`
}

type Job struct {
	Prop     string   `json:"prop"`
	Tier     string   `json:"tier"`
	SeedFrom int64    `json:"seed_from"`
	SeedTo   int64    `json:"seed_to"`
	Plans    []*Plan  `json:"plans,omitempty"`
	Trace    bool     `json:"trace,omitempty"`
	Avoid    []string `json:"avoid,omitempty"`
	Out      string   `json:"out"`
	KeepPlan bool     `json:"keep_plan,omitempty"`
	GenOnly  bool     `json:"gen_only,omitempty"`
	PerRun   int      `json:"-"` // watchdog override for this job (0: the tier's)
}

type Finding struct {
	Property  string   `json:"property"`
	Status    string   `json:"status"`    // open | fixed
	Signature string   `json:"signature"` // prefix of the violation signature (exact list below, if given, decides)
	Exact     []string `json:"signatures,omitempty"`
	WhatFails string   `json:"what_fails"`
	Commit    string   `json:"commit,omitempty"`
	Avoid     string   `json:"avoid,omitempty"` // generator switch that avoids the trigger
}

// per-property tiers
type tierCfg struct {
	Runs    int
	Chunk   int
	Budget  int // seconds of exploration wall-clock (excludes build)
	PerRun  int // watchdog seconds per run (real time)
	Race    bool
	AvoidPc int // percentage of runs that avoid known-finding triggers
}

type propCfg struct {
	Quick, Thorough tierCfg
	Race            bool
	Title           string
}

func tc(runs, chunk, budget int) tierCfg {
	return tierCfg{Runs: runs, Chunk: chunk, Budget: budget, PerRun: 20}
}

func tcw(runs, chunk, budget, perRun int) tierCfg {
	return tierCfg{Runs: runs, Chunk: chunk, Budget: budget, PerRun: perRun}
}

var props = map[string]propCfg{
	"C01": {Quick: tc(40000, 200, 60), Thorough: tc(300000, 300, 1200)},
	"C02": {Quick: tcw(40000, 200, 60, 8), Thorough: tcw(500000, 300, 1500, 8)},
	"C03": {Quick: tc(2000, 100, 45), Thorough: tc(150000, 250, 900)},
	"C17": {Quick: tc(15000, 100, 60), Thorough: tc(60000, 100, 900)},
	"C19": {Quick: tc(40000, 200, 60), Thorough: tc(400000, 500, 900)},
	"C18": {Quick: tcw(100000, 500, 60, 6), Thorough: tcw(400000, 500, 900, 6)},
	"C04": {Quick: tc(2500, 100, 60), Thorough: tc(150000, 200, 900), Race: true},
	"C05": {Quick: tc(5000, 200, 45), Thorough: tc(300000, 500, 900)},
	"C06": {Quick: tc(30000, 200, 60), Thorough: tc(300000, 500, 900)},
	"C07": {Quick: tc(40000, 200, 60), Thorough: tc(300000, 500, 900)},
	"C08": {Quick: tc(5000, 200, 45), Thorough: tc(300000, 500, 900)},
	"C09": {Quick: tc(30000, 200, 60), Thorough: tc(300000, 500, 900)},
	"C10": {Quick: tc(15000, 100, 120), Thorough: tc(300000, 100, 1200), Race: true},
	"C11": {Quick: tc(40000, 200, 60), Thorough: tc(300000, 300, 1200)},
	"C12": {Quick: tcw(119, 1, 150, 150), Thorough: tcw(238, 1, 3000, 1500)},
	"C13": {Quick: tc(4000, 50, 90), Thorough: tc(60000, 100, 900), Race: true},
	"C14": {Quick: tc(20000, 200, 60), Thorough: tc(200000, 500, 900)},
	"C15": {Quick: tc(4000, 100, 45), Thorough: tc(40000, 100, 900), Race: true},
	"C16": {Quick: tc(20000, 200, 90), Thorough: tc(300000, 300, 900)},
}

func fatalf(f string, a ...any) {
	fmt.Fprintf(os.Stderr, "check: "+f+"\n", a...)
	os.Exit(2)
}

func goEnv(extra ...string) []string {
	env := os.Environ()
	env = append(env, "GOFLAGS=-mod=mod", "GOPROXY=off", "GOSUMDB=off", "GOTOOLCHAIN=local", "GONOSUMDB=*", "GONOSUMCHECK=1", "GOFLAGS=-mod=mod")
	return append(env, extra...)
}

type build struct {
	dir      string
	overlay  string
	worker   string
	race     bool
	instr    map[string]any
	buildSec float64
}

func findGo() string {
	for _, c := range []string{"go1.26.8", "/opt/veriftools/go1.26.8/bin/go", "/usr/local/bin/go1.26.8"} {
		if p, err := exec.LookPath(c); err == nil {
			return p
		}
	}
	fatalf("go1.26.8 not found")
	return ""
}

func prepare(race bool) *build {
	t0 := time.Now()
	base := os.Getenv("VERIF_SCRATCH")
	if base == "" {
		base = os.TempDir()
	}
	dir, err := os.MkdirTemp(base, "verif-")
	if err != nil {
		fatalf("scratch: %v", err)
	}
	b := &build{dir: dir, race: race}
	gobin := filepath.Join(dir, "gobin")
	os.MkdirAll(gobin, 0o755)
	gopath := findGo()
	os.Symlink(gopath, filepath.Join(gobin, "go"))
	instr := filepath.Join(verifDir, "bin", "instrument")
	if _, err := os.Stat(instr); err != nil {
		fatalf("bin/instrument missing: run ./setup.sh")
	}
	cmd := exec.Command(instr, "-repo", repoDir, "-out", dir, "-extra", filepath.Join(verifDir, "overlay_extra"))
	cmd.Env = goEnv("PATH=" + gobin + ":" + os.Getenv("PATH"))
	if out, err := cmd.CombinedOutput(); err != nil {
		b.cleanup()
		fatalf("instrument failed (tooling, not a verdict): %v\n%s", err, out)
	}
	b.overlay = filepath.Join(dir, "overlay.json")
	raw, _ := os.ReadFile(filepath.Join(dir, "instrument.json"))
	json.Unmarshal(raw, &b.instr)
	b.worker = filepath.Join(dir, "worker.test")
	args := []string{"test", "-c", "-vet=off", "-overlay", b.overlay, "-o", b.worker}
	if race {
		args = append(args, "-race")
	}
	args = append(args, "./props/")
	cmd = exec.Command(gopath, args...)
	cmd.Dir = verifDir
	cmd.Env = goEnv()
	if out, err := cmd.CombinedOutput(); err != nil {
		b.cleanup()
		fatalf("worker build failed (tooling, not a verdict): %v\n%s", err, out)
	}
	b.buildSec = time.Since(t0).Seconds()
	return b
}

func (b *build) cleanup() { os.RemoveAll(b.dir) }

var perRunSec = 20

// watchdogFor: a hang is only a hang if the run, re-run with few others, outlives five watchdog periods (at least 40 s).
func watchdogFor(class string, perRun int) int {
	if class == "hang" {
		if perRun*5 < 40 {
			return 40
		}
		return perRun * 5
	}
	return perRun
}

var confirmSem = make(chan struct{}, 4) // at most four confirmations at a time
var jobSeq int
var jobMu sync.Mutex

type jobResult struct {
	outs    []*Outcome
	stderr  string
	crashed bool
	hung    bool
	slow    bool  // abandoned by the watchdog although the scheduler was still taking steps
	lastRun int64 // seed that was running when the process died
	hasLast bool
}

var runRe = regexp.MustCompile(`@@RUN (\S+) (-?\d+) (START|END)`)

// runJob executes one worker process.
func (b *build) runJob(job *Job, timeout time.Duration) *jobResult {
	jobMu.Lock()
	jobSeq++
	id := jobSeq
	jobMu.Unlock()
	jp := filepath.Join(b.dir, fmt.Sprintf("job%d.json", id))
	job.Out = filepath.Join(b.dir, fmt.Sprintf("out%d.jsonl", id))
	raw, _ := json.Marshal(job)
	os.WriteFile(jp, raw, 0o644)
	defer os.Remove(jp)
	defer os.Remove(job.Out)
	cmd := exec.Command(b.worker, "-test.run", "^TestWorker$", "-test.timeout", "0")
	pr := perRunSec
	if job.PerRun > 0 {
		pr = job.PerRun
	}
	cmd.Env = append(os.Environ(), "VERIF_JOB="+jp, "VERIF_PERRUN="+strconv.Itoa(pr), "GORACE=halt_on_error=0 history_size=2", "GOMAXPROCS="+gomaxprocs())
	var stderr bytes.Buffer
	cmd.Stderr = &stderr
	cmd.Stdout = &stderr
	res := &jobResult{}
	if err := cmd.Start(); err != nil {
		fatalf("start worker: %v", err)
	}
	done := make(chan error, 1)
	go func() { done <- cmd.Wait() }()
	select {
	case <-done:
	case <-time.After(timeout):
		cmd.Process.Kill()
		<-done
		res.hung = true
	}
	res.stderr = stderr.String()
	if strings.Contains(res.stderr, "@@HANG ") {
		res.hung = true
	}
	if strings.Contains(res.stderr, "@@SLOW ") {
		res.hung, res.slow = false, true
	}
	if f, err := os.Open(job.Out); err == nil {
		sc := bufio.NewScanner(f)
		sc.Buffer(make([]byte, 1<<20), 1<<28)
		for sc.Scan() {
			var o Outcome
			if json.Unmarshal(sc.Bytes(), &o) == nil {
				res.outs = append(res.outs, &o)
			}
		}
		f.Close()
	}
	// which seed was running at the end?
	open := map[int64]bool{}
	var last int64
	for _, m := range runRe.FindAllStringSubmatch(res.stderr, -1) {
		s, _ := strconv.ParseInt(m[2], 10, 64)
		if m[3] == "START" {
			open[s] = true
			last = s
		} else {
			delete(open, s)
		}
	}
	if open[last] {
		res.hasLast, res.lastRun = true, last
		if !res.hung {
			res.crashed = true
		}
	}
	attachRaces(res)
	return res
}

var gmp = ""

func gomaxprocs() string {
	if gmp != "" {
		return gmp
	}
	return "2"
}

// attachRaces parses race-detector reports out of stderr and attaches them to
// the outcome of the seed that was running.
func attachRaces(res *jobResult) {
	if !strings.Contains(res.stderr, "WARNING: DATA RACE") {
		return
	}
	bySeed := map[int64]*Outcome{}
	for _, o := range res.outs {
		bySeed[o.Seed] = o
	}
	lines := strings.Split(res.stderr, "\n")
	var cur int64
	killed := false
	for i := 0; i < len(lines); i++ {
		if m := runRe.FindStringSubmatch(lines[i]); m != nil {
			cur, _ = strconv.ParseInt(m[2], 10, 64)
			killed = m[3] == "END"
			continue
		}
		if strings.HasPrefix(lines[i], "@@KILL") {
			killed = true
		}
		if strings.Contains(lines[i], "WARNING: DATA RACE") {
			j := i + 1
			for j < len(lines) && !strings.HasPrefix(lines[j], "==================") {
				j++
			}
			block := lines[i:j]
			i = j
			if killed {
				continue // during teardown of an ended run: not attributable
			}
			sig, ok := raceSig(block)
			if !ok {
				continue
			}
			o := bySeed[cur]
			if o == nil {
				o = &Outcome{Seed: cur, Faults: map[string]int{}, Probes: map[string]int{}}
				bySeed[cur] = o
				res.outs = append(res.outs, o)
			}
			msg := strings.Join(block, "\n")
			if len(msg) > 6000 {
				msg = msg[:6000]
			}
			o.Violations = append(o.Violations, Violation{Class: "race", Sig: sig, Msg: msg})
		}
	}
}

var adaptorRe = regexp.MustCompile(`interceptor\.(RTP|RTCP)(Writer|Reader)Func\.`)

// raceSig builds "race:<funcA>|<funcB>" from the innermost pion/interceptor
// frames of the two accesses; ok=false when no library frame is involved.
func raceSig(block []string) (string, bool) {
	var stacks [][]string
	var cur []string
	in := false
	for _, l := range block {
		t := strings.TrimSpace(l)
		switch {
		case strings.HasPrefix(t, "Write at"), strings.HasPrefix(t, "Read at"), strings.HasPrefix(t, "Previous write at"), strings.HasPrefix(t, "Previous read at"),
			strings.HasPrefix(t, "Atomic"), strings.HasPrefix(t, "Previous atomic"):
			if in {
				stacks = append(stacks, cur)
			}
			cur, in = nil, true
		case strings.HasPrefix(t, "Goroutine "):
			if in {
				stacks = append(stacks, cur)
			}
			cur, in = nil, false
		default:
			if in {
				cur = append(cur, l)
			}
		}
	}
	if in {
		stacks = append(stacks, cur)
	}
	var fs []string
	for _, st := range stacks {
		fs = append(fs, libFrame(st))
	}
	if len(fs) < 2 || (fs[0] == "" && fs[1] == "") {
		return "", false
	}
	a, bb := fs[0], fs[1]
	if a == "" {
		a = "(caller)"
	}
	if bb == "" {
		bb = "(caller)"
	}
	if a > bb {
		a, bb = bb, a
	}
	return "race:" + a + "|" + bb, true
}

var fnLineRe = regexp.MustCompile(`^\s+(\S+)\(`)

// libFrame returns the innermost frame of a stack that executes a file of the
// repository (the library), named like the function "pkg/x.(*T).M"; "" if there
// is none.  Frames are recognised by their source file, not by the function
// name: a closure of the library that was inlined into harness code is
// printed under the harness function's name.
func libFrame(st []string) string {
	for i := 0; i+1 < len(st); i++ {
		m := fnLineRe.FindStringSubmatch(st[i])
		if m == nil {
			continue
		}
		file := strings.TrimSpace(st[i+1])
		if !strings.HasPrefix(file, repoDir+"/") {
			continue
		}
		fn := m[1]
		if adaptorRe.MatchString(fn) {
			continue // RTPWriterFunc.Write etc. merely wrap a (harness) function
		}
		if strings.HasPrefix(fn, "github.com/pion/interceptor") {
			return strings.TrimPrefix(strings.TrimPrefix(fn, "github.com/pion/interceptor"), "/")
		}
		// inlined: rebuild "<package dir>.<receiver and method>" from the file and the tail of the name
		rel := strings.TrimPrefix(file, repoDir+"/")
		if k := strings.Index(rel, ":"); k >= 0 {
			rel = rel[:k]
		}
		dir := filepath.Dir(rel)
		tail := fn
		if k := strings.Index(fn, "(*"); k >= 0 {
			tail = fn[k:]
		} else if k := strings.LastIndex(fn, "."); k >= 0 {
			tail = fn[k+1:]
		}
		return dir + "." + tail
	}
	return ""
}

func loadFindings() []Finding {
	raw, err := os.ReadFile(filepath.Join(verifDir, "known_findings.json"))
	if err != nil {
		return nil
	}
	var fs []Finding
	if err := json.Unmarshal(raw, &fs); err != nil {
		fatalf("known_findings.json: %v", err)
	}
	return fs
}

func matchFinding(fs []Finding, prop, sig string) *Finding {
	for i := range fs {
		f := &fs[i]
		if f.Property != prop || f.Status != "open" || f.Signature == "" || !strings.HasPrefix(sig, f.Signature) {
			continue
		}
		if len(f.Exact) == 0 {
			return f
		}
		for _, x := range f.Exact {
			if x == sig {
				return f
			}
		}
	}
	return nil
}

// runPlans executes explicit plans (for minimisation / replay), in parallel.
func (b *build) runPlans(plans []*Plan, trace bool, perRun int) []*Outcome {
	outs := make([]*Outcome, len(plans))
	var wg sync.WaitGroup
	sem := make(chan struct{}, runtime.NumCPU())
	for i := range plans {
		wg.Add(1)
		sem <- struct{}{}
		go func(i int) {
			defer wg.Done()
			defer func() { <-sem }()
			job := &Job{Prop: plans[i].Prop, Plans: []*Plan{plans[i]}, Trace: trace, KeepPlan: true, PerRun: perRun}
			r := b.runJob(job, time.Duration(perRun+10)*time.Second)
			for _, o := range r.outs {
				if o.Seed == plans[i].Seed {
					if outs[i] == nil {
						outs[i] = o
					} else {
						outs[i].Violations = append(outs[i].Violations, o.Violations...)
					}
				}
			}
			if outs[i] == nil {
				outs[i] = &Outcome{Seed: plans[i].Seed}
			}
			if r.hung {
				outs[i].Violations = append(outs[i].Violations, Violation{Class: "hang", Sig: hangSig(r.stderr), Msg: "run did not finish within the real-time watchdog (CPU loop or wedge):\n" + tail(r.stderr, 2500)})
			} else if r.crashed {
				outs[i].Violations = append(outs[i].Violations, Violation{Class: "fatal", Sig: fatalSig(r.stderr), Msg: tail(r.stderr, 3000)})
			}
		}(i)
	}
	wg.Wait()
	return outs
}

func tail(s string, n int) string {
	if len(s) > n {
		return s[len(s)-n:]
	}
	return s
}

func fatalSig(stderr string) string {
	for _, l := range strings.Split(stderr, "\n") {
		if strings.HasPrefix(l, "fatal error:") || strings.HasPrefix(l, "panic:") {
			if len(l) > 100 {
				l = l[:100]
			}
			return "fatal:" + l
		}
	}
	return "fatal:worker died"
}

// hangSig names the innermost library function that was spinning.
func hangSig(stderr string) string {
	i := strings.Index(stderr, "@@HANG ")
	if i < 0 {
		return "hang"
	}
	for _, l := range strings.Split(stderr[i:], "\n") {
		if strings.HasPrefix(l, "github.com/pion/interceptor") {
			if j := strings.LastIndex(l, "("); j > 0 {
				l = l[:j]
			}
			return "hang:" + strings.TrimPrefix(l, "github.com/pion/interceptor/")
		}
	}
	return "hang"
}

func hasSig(o *Outcome, sig string) bool {
	for _, v := range o.Violations {
		if v.Sig == sig {
			return true
		}
	}
	return false
}

// minimise shrinks the plan while the same signature persists.
func (b *build) minimise(p *Plan, sig string, budget time.Duration, perRun int) (*Plan, int) {
	deadline := time.Now().Add(budget)
	best := clonePlan(p)
	tried := 0
	try := func(cands []*Plan) int {
		if len(cands) == 0 || time.Now().After(deadline) {
			return -1
		}
		outs := b.runPlans(cands, false, perRun)
		tried += len(cands)
		for i, o := range outs {
			if hasSig(o, sig) {
				return i
			}
		}
		return -1
	}
	// ddmin over ops
	n := 2
	for len(best.Ops) >= 2 && time.Now().Before(deadline) {
		chunk := (len(best.Ops) + n - 1) / n
		var cands []*Plan
		for start := 0; start < len(best.Ops); start += chunk {
			end := start + chunk
			if end > len(best.Ops) {
				end = len(best.Ops)
			}
			c := clonePlan(best)
			c.Ops = append(append([]json.RawMessage{}, best.Ops[:start]...), best.Ops[end:]...)
			cands = append(cands, c)
		}
		if len(cands) > 64 {
			// evaluate in slices to bound parallel work
			found := -1
			for off := 0; off < len(cands) && found < 0; off += 64 {
				hi := off + 64
				if hi > len(cands) {
					hi = len(cands)
				}
				if k := try(cands[off:hi]); k >= 0 {
					found = off + k
				}
			}
			if found >= 0 {
				best = cands[found]
				if n > 2 {
					n--
				}
				continue
			}
		} else if k := try(cands); k >= 0 {
			best = cands[k]
			if n > 2 {
				n--
			}
			continue
		}
		if chunk == 1 {
			break
		}
		n *= 2
		if n > len(best.Ops) {
			n = len(best.Ops)
		}
	}
	// simpler schedule / fewer fault knobs
	var cands []*Plan
	if best.Strategy != 3 {
		c := clonePlan(best)
		c.Strategy = 3
		cands = append(cands, c)
	}
	if best.PoolDrop != 0 {
		c := clonePlan(best)
		c.PoolDrop = 0
		cands = append(cands, c)
	}
	for _, c := range cands {
		if k := try([]*Plan{c}); k >= 0 {
			merged := clonePlan(best)
			merged.Strategy, merged.PoolDrop = c.Strategy, c.PoolDrop
			if c.Strategy == 3 {
				merged.Strategy = 3
			}
			best = c
			_ = merged
		}
	}
	return best, tried
}

func clonePlan(p *Plan) *Plan {
	c := *p
	c.Ops = append([]json.RawMessage{}, p.Ops...)
	c.Tape = append([]int{}, p.Tape...)
	if len(c.Tape) == 0 {
		c.Tape = nil
	}
	return &c
}

type Replay struct {
	Property  string    `json:"property"`
	Violation Violation `json:"violation"`
	Plan      *Plan     `json:"plan"`
	Hash      string    `json:"hash"`
	Race      bool      `json:"race_build"`
	OrigOps   int       `json:"original_ops"`
	MinOps    int       `json:"minimised_ops"`
	MinTried  int       `json:"minimisation_runs"`
	Trace     []string  `json:"trace_tail"`
	Note      string    `json:"note"`
}

func main() {
	if len(os.Args) < 2 {
		fatalf("usage: check run|replay|determinism ...")
	}
	if r := os.Getenv("VERIF_REPO"); r != "" {
		repoDir = r
	}
	switch os.Args[1] {
	case "run":
		os.Exit(cmdRun(os.Args[2:]))
	case "replay":
		os.Exit(cmdReplay(os.Args[2:]))
	case "determinism":
		os.Exit(cmdDeterminism(os.Args[2:]))
	default:
		fatalf("unknown command %s", os.Args[1])
	}
}

func cmdRun(args []string) int {
	fs := flag.NewFlagSet("run", flag.ExitOnError)
	tier := fs.String("tier", envOr("VERIF_TIER", "quick"), "quick|thorough")
	runs := fs.Int("runs", 0, "override number of runs")
	budget := fs.Int("budget", 0, "override exploration budget (s)")
	noMin := fs.Bool("no-minimise", false, "skip minimisation")
	if len(args) < 1 {
		fatalf("usage: check run <PROP>")
	}
	prop := args[0]
	fs.Parse(args[1:])
	pc, ok := props[prop]
	if !ok {
		fatalf("unknown property %s", prop)
	}
	t := pc.Quick
	if *tier == "thorough" {
		t = pc.Thorough
	}
	if *runs > 0 {
		t.Runs = *runs
	}
	if *budget > 0 {
		t.Budget = *budget
	}
	seed, _ := strconv.ParseInt(envOr("VERIF_SEED", "1"), 10, 64)
	perRunSec = t.PerRun
	t0 := time.Now()
	b := prepare(pc.Race)
	defer b.cleanup()
	findings := loadFindings()
	var avoid []string
	for _, f := range findings {
		if f.Property == prop && f.Status == "open" && f.Avoid != "" {
			avoid = append(avoid, f.Avoid)
		}
	}
	base := seed * 10_000_000
	// fan out
	type chunk struct{ from, to int64 }
	var chunks []chunk
	for s := int64(0); s < int64(t.Runs); s += int64(t.Chunk) {
		e := s + int64(t.Chunk)
		if e > int64(t.Runs) {
			e = int64(t.Runs)
		}
		chunks = append(chunks, chunk{base + s, base + e})
	}
	var mu sync.Mutex
	var outs []*Outcome
	var tooling []string
	deaths := 0
	slowSkipped := 0
	var slowNotes []string // budget effects, reported in the evidence, not a tooling failure
	exploreStart := time.Now()
	deadline := exploreStart.Add(time.Duration(t.Budget) * time.Second)
	nw := runtime.NumCPU()
	if pc.Race && nw > 12 {
		nw = 12
	}
	work := make(chan chunk)
	var wg sync.WaitGroup
	skipped := 0
	for w := 0; w < nw; w++ {
		wg.Add(1)
		go func() {
			defer wg.Done()
			for c := range work {
				from := c.from
				for from < c.to {
					// a share of the runs confirms known findings, the rest avoids their triggers
					av := avoidFor(avoid, from, t.Chunk)
					job := &Job{Prop: prop, Tier: *tier, SeedFrom: from, SeedTo: c.to, Avoid: av}
					r := b.runJob(job, time.Duration(int(c.to-from)*t.PerRun/4+t.PerRun+30)*time.Second)
					mu.Lock()
					outs = append(outs, r.outs...)
					mu.Unlock()
					if r.slow && r.hasLast {
						// too slow to finish within the watchdog, but not stuck: skip the seed, say so
						mu.Lock()
						slowNotes = append(slowNotes, fmt.Sprintf("seed %d: abandoned as too slow (the scheduler was still taking steps)", r.lastRun))
						slowSkipped++
						mu.Unlock()
						from = r.lastRun + 1
						continue
					}
					if !(r.hung || r.crashed) {
						break
					}
					if !r.hasLast {
						mu.Lock()
						tooling = append(tooling, "worker died without a running seed: "+tail(r.stderr, 800))
						mu.Unlock()
						break
					}
					// confirm alone, then continue after the offending seed
					cls := "fatal"
					if r.hung {
						cls = "hang"
					}
					// a hang must be a run that does not end, not a slow run on a busy machine: the confirmation
					// gets five times the watchdog (at least 40 s) and runs while at most three other confirmations do
					long := watchdogFor("hang", t.PerRun)
					one := &Job{Prop: prop, Tier: *tier, SeedFrom: r.lastRun, SeedTo: r.lastRun + 1, Avoid: av, PerRun: long}
					confirmSem <- struct{}{}
					r2 := b.runJob(one, time.Duration(long+30)*time.Second)
					<-confirmSem
					mu.Lock()
					if r2.hung || r2.crashed {
						sig := hangSig(r2.stderr)
						if cls == "fatal" {
							sig = fatalSig(r2.stderr)
						}
						deaths++
						outs = append(outs, &Outcome{Prop: prop, Seed: r.lastRun, Violations: []Violation{{Class: cls, Sig: sig, Msg: tail(r2.stderr, 3000)}}})
					} else {
						outs = append(outs, r2.outs...)
						tooling = append(tooling, fmt.Sprintf("seed %d: worker %s in a batch but not alone", r.lastRun, cls))
					}
					stop := deaths >= 4
					mu.Unlock()
					from = r.lastRun + 1
					if stop {
						break // enough confirmed hangs/crashes: the verdict stands, do not burn the budget on more
					}
				}
			}
		}()
	}
	for _, c := range chunks {
		mu.Lock()
		tooMany := deaths >= 4
		mu.Unlock()
		if time.Now().After(deadline) || tooMany {
			skipped++
			continue
		}
		work <- c
	}
	close(work)
	wg.Wait()
	exploreSec := time.Since(exploreStart).Seconds()

	// dedupe outcomes by seed (race attachments may have created stubs)
	bySeed := map[int64]*Outcome{}
	for _, o := range outs {
		if p := bySeed[o.Seed]; p != nil {
			p.Violations = append(p.Violations, o.Violations...)
			if p.Hash == "" && o.Hash != "" {
				o.Violations = p.Violations
				bySeed[o.Seed] = o
			}
		} else {
			bySeed[o.Seed] = o
		}
	}
	var seeds []int64
	for s := range bySeed {
		seeds = append(seeds, s)
	}
	sort.Slice(seeds, func(i, j int) bool { return seeds[i] < seeds[j] })

	// aggregate
	ev := newEvidence(prop, *tier, seed)
	type vio struct {
		o *Outcome
		v Violation
	}
	firstBySig := map[string]vio{}
	sigCount := map[string]int{}
	for _, s := range seeds {
		o := bySeed[s]
		ev.add(o)
		if o.Tooling != "" {
			tooling = append(tooling, fmt.Sprintf("seed %d: %s", o.Seed, o.Tooling))
		}
		seen := map[string]bool{}
		for _, v := range o.Violations {
			if seen[v.Sig] {
				continue
			}
			seen[v.Sig] = true
			sigCount[v.Sig]++
			if _, ok := firstBySig[v.Sig]; !ok {
				firstBySig[v.Sig] = vio{o, v}
			}
		}
	}
	var sigs []string
	for s := range firstBySig {
		sigs = append(sigs, s)
	}
	sort.Strings(sigs)
	exit := 0
	knownSeen := map[string]int{}
	os.MkdirAll(filepath.Join(verifDir, "replays"), 0o755)
	for _, sig := range sigs {
		fv := firstBySig[sig]
		if f := matchFinding(findings, prop, sig); f != nil {
			knownSeen[f.Signature] += sigCount[sig]
			continue
		}
		exit = 1
		// obtain the plan (regenerate through the worker when it was not attached)
		plan := fv.o.Plan
		if plan == nil {
			job := &Job{Prop: prop, Tier: *tier, SeedFrom: fv.o.Seed, SeedTo: fv.o.Seed + 1, GenOnly: true, Avoid: avoidFor(avoid, fv.o.Seed, t.Chunk)}
			r := b.runJob(job, time.Duration(t.PerRun+20)*time.Second)
			for _, o := range r.outs {
				if o.Plan != nil {
					plan = o.Plan
				}
			}
		}
		rp := &Replay{Property: prop, Violation: fv.v, Plan: plan, Hash: fv.o.Hash, Race: pc.Race}
		if plan != nil {
			rp.OrigOps = len(plan.Ops)
			min := plan
			if !*noMin {
				mb := 45 * time.Second
				if *tier == "thorough" {
					mb = 240 * time.Second
				}
				min, rp.MinTried = b.minimise(plan, sig, mb, watchdogFor(fv.v.Class, t.PerRun))
			}
			rp.MinOps = len(min.Ops)
			fin := b.runPlans([]*Plan{min}, true, watchdogFor(fv.v.Class, t.PerRun))[0]
			if hasSig(fin, sig) {
				rp.Plan = min
				rp.Hash = fin.Hash
				for _, v := range fin.Violations {
					if v.Sig == sig {
						rp.Violation = v
					}
				}
				tr := fin.Trace
				if len(tr) > 1500 {
					tr = tr[len(tr)-1500:]
				}
				rp.Trace = tr
			} else {
				rp.Note = "minimised plan did not reproduce in the final traced run; original plan kept"
				rp.Plan = plan
			}
		}
		path := filepath.Join(verifDir, "replays", fmt.Sprintf("%s-%d-%s.json", prop, fv.o.Seed, sanitize(sig)))
		raw, _ := json.MarshalIndent(rp, "", " ")
		os.WriteFile(path, raw, 0o644)
		fmt.Printf("VIOLATION property=%s replay=%s\n", prop, path)
		fmt.Printf("  signature=%s seeds_affected=%d first_seed=%d ops %d -> %d\n  %s\n", sig, sigCount[sig], fv.o.Seed, rp.OrigOps, rp.MinOps, firstN(rp.Violation.Msg, 600))
		ev.Violations++
	}
	for _, f := range findings {
		if f.Property == prop && f.Status == "open" {
			fmt.Printf("KNOWN-FINDING: property=%s %s [signature %s; seen in %d runs of this batch]\n", prop, f.WhatFails, f.Signature, knownSeen[f.Signature])
			ev.Known = append(ev.Known, map[string]any{"signature": f.Signature, "what_fails": f.WhatFails, "seen_runs": knownSeen[f.Signature]})
		}
	}
	ev.finish(b, t, exploreSec, time.Since(t0).Seconds(), skipped*t.Chunk, append(append([]string{}, tooling...), slowNotes...))
	if len(tooling) > 0 {
		for i, tl := range tooling {
			if i < 5 {
				fmt.Fprintf(os.Stderr, "TOOLING: %s\n", firstN(tl, 500))
			}
		}
		if exit == 0 {
			fmt.Fprintf(os.Stderr, "check: %d tooling problems (exit 2)\n", len(tooling))
			return 2
		}
	}
	fmt.Printf("check %s tier=%s seed=%d: runs=%d distinct_nontrivial=%d violations(new signatures)=%d known=%d explore=%.1fs total=%.1fs\n",
		prop, *tier, seed, ev.Runs, len(ev.hashesNT), ev.Violations, len(knownSeen), exploreSec, time.Since(t0).Seconds())
	return exit
}

func avoidFor(avoid []string, seed int64, chunk int) []string {
	if os.Getenv("VERIF_NO_AVOID") != "" {
		return nil // exploration aid: every run may trigger the open findings
	}
	if len(avoid) > 0 && (seed/int64(chunk))%10 != 0 {
		return avoid
	}
	return nil
}

func countPrefix(notes []string, what string) int {
	n := 0
	for _, t := range notes {
		if strings.Contains(t, what) {
			n++
		}
	}
	return n
}

func firstN(s string, n int) string {
	if len(s) > n {
		return s[:n] + "..."
	}
	return s
}

func sanitize(s string) string {
	var b strings.Builder
	for _, r := range s {
		if r >= 'a' && r <= 'z' || r >= 'A' && r <= 'Z' || r >= '0' && r <= '9' || r == '-' || r == '_' {
			b.WriteRune(r)
		} else {
			b.WriteByte('_')
		}
	}
	out := b.String()
	if len(out) > 80 {
		out = out[:80]
	}
	return out
}

func envOr(k, d string) string {
	if v := os.Getenv(k); v != "" {
		return v
	}
	return d
}

// ---------------------------------------------------------------------------

type evidence struct {
	Prop, Tier string
	Seed       int64
	Runs       int
	hashes     map[string]bool
	hashesNT   map[string]bool
	Steps      int64
	Switches   int64
	SimMs      float64
	Faults     map[string]int
	Probes     map[string]int
	Checks     int64
	Strategies map[string]int
	Truncated  int
	Stranded   int
	Samples    []any
	Violations int
	Known      []map[string]any
	MaxG       int
	Sites      int
}

func newEvidence(prop, tier string, seed int64) *evidence {
	return &evidence{Prop: prop, Tier: tier, Seed: seed, hashes: map[string]bool{}, hashesNT: map[string]bool{}, Faults: map[string]int{}, Probes: map[string]int{}, Strategies: map[string]int{}}
}

func (e *evidence) add(o *Outcome) {
	if o.Hash == "" {
		return
	}
	e.Runs++
	e.hashes[o.Hash] = true
	nf := 0
	for k, v := range o.Faults {
		e.Faults[k] += v
		nf += v
	}
	np := 0
	for k, v := range o.Probes {
		e.Probes[k] += v
		np += v
	}
	if o.Checks > 0 && (nf > 0 || np > 0) {
		e.hashesNT[o.Hash] = true
	}
	e.Steps += int64(o.Steps)
	e.Switches += int64(o.Switches)
	e.SimMs += o.SimMs
	e.Checks += int64(o.Checks)
	e.Strategies[o.Strategy]++
	if o.Truncated {
		e.Truncated++
	}
	if len(o.Stranded) > 0 {
		e.Stranded++
	}
	if o.Goroutines > e.MaxG {
		e.MaxG = o.Goroutines
	}
	if o.Sites > e.Sites {
		e.Sites = o.Sites
	}
	if len(e.Samples) < 5 && o.Sample != "" {
		e.Samples = append(e.Samples, map[string]any{"seed": o.Seed, "case": o.Sample, "steps": o.Steps, "sim_ms": o.SimMs, "strategy": o.Strategy, "faults": o.Faults, "probes": o.Probes, "oracle_checks": o.Checks, "event_log_hash": o.Hash})
	}
}

func (e *evidence) finish(b *build, t tierCfg, exploreSec, wall float64, skippedRuns int, tooling []string) {
	cov := map[string]any{
		"evaluations":                       e.Runs,
		"distinct_nontrivial":               len(e.hashesNT),
		"rule":                              "one evaluation = one simulated run (plan = seeded configuration + workload/fault operations + schedule strategy) of the real instrumented interceptor code in a synctest bubble under the simrt scheduler; distinct = distinct event-log hash (every scheduling step, fault and oracle observation is hashed); non-trivial = at least one oracle comparison was made AND at least one fault fired or rare-condition probe was hit",
		"samples":                           e.Samples,
		"distinct_schedules":                len(e.hashes),
		"scheduler_steps":                   e.Steps,
		"context_switches":                  e.Switches,
		"simulated_seconds":                 e.SimMs / 1000,
		"oracle_comparisons":                e.Checks,
		"faults_fired":                      e.Faults,
		"probes_hit":                        e.Probes,
		"schedule_strategies":               e.Strategies,
		"runs_truncated_by_step_budget":     e.Truncated,
		"runs_with_stranded_caller":         e.Stranded,
		"max_goroutines_in_a_run":           e.MaxG,
		"max_distinct_yield_sites_in_a_run": e.Sites,
		"runs_per_hour":                     float64(e.Runs) / (exploreSec + 1e-9) * 3600,
		"explore_wall_s":                    exploreSec,
		"build_wall_s":                      b.buildSec,
		"runs_planned":                      t.Runs,
		"runs_skipped_by_budget":            skippedRuns,
		"runs_abandoned_as_too_slow":        countPrefix(tooling, "abandoned as too slow"),
		"race_detector":                     b.race,
		"instrumentation":                   b.instr,
		"known_findings":                    e.Known,
		"real_components":                   []string{"all non-test code of pion/interceptor from /repo's working tree (instrumented only at sync, sync/atomic, math/rand, go, channel/select and map-range sites)", "pion/rtp", "pion/rtcp", "pion/logging types", "golang.org/x/time/rate", "Go runtime channels, timers (synctest fake clock), race detector"},
		"stubbed_components":                []string{"goroutine choice (simrt scheduler)", "wall clock (testing/synctest bubble)", "network/peer/application (harness goroutines from the plan)", "io.Writer sinks", "logger sinks", "sync.Pool retention policy", "map and select order"},
		"tooling_problems":                  len(tooling),
	}
	doc := map[string]any{
		"property_id": e.Prop,
		"tier":        e.Tier,
		"seed":        e.Seed,
		"level":       "exploration",
		"coverage":    cov,
		"assumptions": []string{
			"seeded search samples schedules and fault sequences; a clean batch is evidence, not proof",
			"interleavings are permuted at synchronisation-point granularity (mutex, atomic, channel, select, goroutine start), not inside a segment",
			"the mechanical overlay rewrite preserves the library's semantics (checked by running /repo's own test-suite against the overlay in pass-through mode)",
			"pion/rtp and pion/rtcp marshal/unmarshal are trusted where the oracle does not use its own decoder",
		},
		"wall_s":     wall,
		"violations": e.Violations,
	}
	raw, _ := json.MarshalIndent(doc, "", " ")
	os.MkdirAll(filepath.Join(verifDir, "evidence"), 0o755)
	if err := os.WriteFile(filepath.Join(verifDir, "evidence", e.Prop+".json"), raw, 0o644); err != nil {
		fatalf("evidence: %v", err)
	}
}

// ---------------------------------------------------------------------------

func cmdReplay(args []string) int {
	if len(args) < 1 {
		fatalf("usage: check replay <file>")
	}
	raw, err := os.ReadFile(args[0])
	if err != nil {
		fatalf("%v", err)
	}
	var rp Replay
	if err := json.Unmarshal(raw, &rp); err != nil {
		fatalf("%v", err)
	}
	b := prepare(rp.Race)
	defer b.cleanup()
	o := b.runPlans([]*Plan{rp.Plan}, true, watchdogFor(rp.Violation.Class, 60))[0]
	if hasSig(o, rp.Violation.Sig) {
		same := "same"
		if o.Hash != rp.Hash {
			same = "different (the code under /repo differs from when the file was written)"
		}
		for _, v := range o.Violations {
			if v.Sig == rp.Violation.Sig {
				fmt.Printf("VIOLATION property=%s replay=%s\n  signature=%s\n  event-log hash %s, recorded %s: %s\n  %s\n", rp.Property, args[0], v.Sig, o.Hash, rp.Hash, same, firstN(v.Msg, 1500))
				break
			}
		}
		return 1
	}
	fmt.Printf("replay %s: violation %q not reproduced on the current tree (hash %s, recorded %s); other violations: %d\n", args[0], rp.Violation.Sig, o.Hash, rp.Hash, len(o.Violations))
	for _, v := range o.Violations {
		fmt.Printf("  other: %s %s\n", v.Sig, firstN(v.Msg, 300))
	}
	if o.Tooling != "" {
		fmt.Fprintf(os.Stderr, "TOOLING: %s\n", o.Tooling)
		return 2
	}
	return 0
}

// cmdDeterminism runs the same seeds in several fresh processes at different
// GOMAXPROCS and compares event-log hashes.
func cmdDeterminism(args []string) int {
	fs := flag.NewFlagSet("determinism", flag.ExitOnError)
	n := fs.Int("seeds", 30, "seeds per property")
	if len(args) < 1 {
		fatalf("usage: check determinism <PROP>...")
	}
	var plist []string
	for len(args) > 0 && !strings.HasPrefix(args[0], "-") {
		plist = append(plist, args[0])
		args = args[1:]
	}
	fs.Parse(args)
	bad := 0
	for _, race := range []bool{false, true} {
		b := prepare(race)
		for _, prop := range plist {
			if race && !props[prop].Race {
				continue // only the properties whose registered commands use the race build are written race-clean
			}
			ref := map[int64]string{}
			for _, procs := range []string{"1", "4", "16"} {
				gmp = procs
				job := &Job{Prop: prop, Tier: "quick", SeedFrom: 424200, SeedTo: 424200 + int64(*n)}
				r := b.runJob(job, 600*time.Second)
				for _, o := range r.outs {
					if o.Hash == "" {
						continue
					}
					key := o.Hash + fmt.Sprint(len(o.Violations))
					if prev, ok := ref[o.Seed]; ok && prev != key {
						fmt.Printf("NONDETERMINISM prop=%s seed=%d race=%v GOMAXPROCS=%s: %s vs %s\n", prop, o.Seed, race, procs, prev, key)
						bad++
					} else {
						ref[o.Seed] = key
					}
				}
			}
			fmt.Printf("determinism %s race=%v: %d seeds x 3 processes (GOMAXPROCS 1/4/16) compared\n", prop, race, len(ref))
		}
		b.cleanup()
	}
	if bad > 0 {
		return 2
	}
	return 0
}
