// Command instrument generates, from the current working tree of
// pion/interceptor, instrumented copies of every non-test Go file together with
// a `go build -overlay` JSON file.  The rewrites are purely mechanical (see
// DESIGN.md §2.2): sync / sync/atomic / math/rand imports are redirected to the
// simrt shims, `go` statements, channel operations, selects and map ranges get
// scheduling points and plan-controlled choice.  Nothing else is touched.
package main

import (
	"bytes"
	"encoding/json"
	"flag"
	"fmt"
	"go/ast"
	"go/constant"
	"go/format"
	"go/token"
	"go/types"
	"os"
	"path/filepath"
	"sort"
	"strconv"
	"strings"

	"golang.org/x/tools/go/ast/astutil"
	"golang.org/x/tools/go/packages"
)

type report struct {
	Files     int            `json:"files"`
	Rewrites  map[string]int `json:"rewrites"`
	Unsealed  []string       `json:"unsealed_sites"`
	Packages  []string       `json:"packages"`
	ExtraPkgs []string       `json:"extra_packages"`
}

var (
	rep  = report{Rewrites: map[string]int{}}
	fset *token.FileSet
	repo string
)

func main() {
	var out, extra string
	flag.StringVar(&repo, "repo", "/repo", "repository root")
	flag.StringVar(&out, "out", "", "output directory")
	flag.StringVar(&extra, "extra", "", "directory with overlay-only packages (mirrors repo layout)")
	flag.Parse()
	if out == "" {
		fatal("need -out")
	}
	repo, _ = filepath.Abs(repo)
	cfg := &packages.Config{
		Mode: packages.NeedName | packages.NeedFiles | packages.NeedSyntax | packages.NeedTypes | packages.NeedTypesInfo | packages.NeedImports | packages.NeedDeps | packages.NeedCompiledGoFiles,
		Dir:  repo,
		Env:  os.Environ(),
	}
	pkgs, err := packages.Load(cfg, "./...")
	if err != nil {
		fatal("load: %v", err)
	}
	overlay := map[string]string{}
	for _, p := range pkgs {
		if strings.Contains(p.PkgPath, "/examples") {
			continue
		}
		if len(p.Errors) > 0 {
			fatal("package %s: %v", p.PkgPath, p.Errors)
		}
		rep.Packages = append(rep.Packages, p.PkgPath)
		fset = p.Fset
		for i, f := range p.Syntax {
			name := p.CompiledGoFiles[i]
			if !strings.HasPrefix(name, repo+"/") || strings.HasSuffix(name, "_test.go") {
				continue
			}
			rel := strings.TrimPrefix(name, repo+"/")
			src := rewriteFile(p, f, rel)
			dst := filepath.Join(out, "files", rel)
			must(os.MkdirAll(filepath.Dir(dst), 0o755))
			must(os.WriteFile(dst, src, 0o644))
			overlay[name] = dst
			rep.Files++
		}
	}
	if extra != "" {
		filepath.Walk(extra, func(path string, info os.FileInfo, err error) error {
			if err != nil || info.IsDir() || !strings.HasSuffix(path, ".go") {
				return nil
			}
			rel, _ := filepath.Rel(extra, path)
			abs, _ := filepath.Abs(path)
			overlay[filepath.Join(repo, rel)] = abs
			rep.ExtraPkgs = append(rep.ExtraPkgs, rel)
			return nil
		})
	}
	sort.Strings(rep.Unsealed)
	sort.Strings(rep.Packages)
	ov, _ := json.MarshalIndent(map[string]any{"Replace": overlay}, "", " ")
	must(os.WriteFile(filepath.Join(out, "overlay.json"), ov, 0o644))
	rj, _ := json.MarshalIndent(rep, "", " ")
	must(os.WriteFile(filepath.Join(out, "instrument.json"), rj, 0o644))
}

func fatal(f string, a ...any) {
	fmt.Fprintf(os.Stderr, "instrument: "+f+"\n", a...)
	os.Exit(2)
}

func must(err error) {
	if err != nil {
		fatal("%v", err)
	}
}

const rt = "simrt__"

var shimImports = map[string][2]string{
	"sync":        {"sync", "verif/simrt/simsync"},
	"sync/atomic": {"atomic", "verif/simrt/simatomic"},
	"math/rand":   {"rand", "verif/simrt/simrand"},
}

type rewriter struct {
	p      *packages.Package
	rel    string
	usedRT bool
	n      int
}

func (r *rewriter) site(pos token.Pos) ast.Expr {
	line := fset.Position(pos).Line
	return &ast.BasicLit{Kind: token.STRING, Value: strconv.Quote(fmt.Sprintf("%s:%d", r.rel, line))}
}

func (r *rewriter) tmp(prefix string) *ast.Ident {
	r.n++
	return ast.NewIdent(fmt.Sprintf("%s%s%d", prefix, "__", r.n))
}

func (r *rewriter) call(fn string, args ...ast.Expr) *ast.CallExpr {
	r.usedRT = true
	return &ast.CallExpr{Fun: &ast.SelectorExpr{X: ast.NewIdent(rt), Sel: ast.NewIdent(fn)}, Args: args}
}

func (r *rewriter) isConst(e ast.Expr) bool {
	tv, ok := r.p.TypesInfo.Types[e]
	return ok && tv.Value != nil && tv.Value.Kind() != constant.Unknown
}

func (r *rewriter) isNil(e ast.Expr) bool {
	tv, ok := r.p.TypesInfo.Types[e]
	return ok && tv.IsNil()
}

func isRecv(e ast.Expr) (*ast.UnaryExpr, bool) {
	e = astutil.Unparen(e)
	u, ok := e.(*ast.UnaryExpr)
	if ok && u.Op == token.ARROW {
		return u, true
	}
	return nil, false
}

func define(lhs ast.Expr, rhs ast.Expr) ast.Stmt {
	return &ast.AssignStmt{Lhs: []ast.Expr{lhs}, Tok: token.DEFINE, Rhs: []ast.Expr{rhs}}
}

func assign(lhs ast.Expr, rhs ast.Expr) ast.Stmt {
	return &ast.AssignStmt{Lhs: []ast.Expr{lhs}, Tok: token.ASSIGN, Rhs: []ast.Expr{rhs}}
}

func intLit(i int) ast.Expr { return &ast.BasicLit{Kind: token.INT, Value: strconv.Itoa(i)} }

func rewriteFile(p *packages.Package, f *ast.File, rel string) []byte {
	r := &rewriter{p: p, rel: rel}
	// imports
	for _, im := range f.Imports {
		path, _ := strconv.Unquote(im.Path.Value)
		if sh, ok := shimImports[path]; ok {
			if im.Name == nil {
				im.Name = ast.NewIdent(sh[0])
			}
			im.Path.Value = strconv.Quote(sh[1])
			rep.Rewrites["import "+path]++
		}
	}
	f.Comments = nil
	ast.Inspect(f, func(n ast.Node) bool {
		switch d := n.(type) {
		case *ast.FuncDecl:
			d.Doc = nil
		case *ast.GenDecl:
			d.Doc = nil
		case *ast.Field:
			d.Doc, d.Comment = nil, nil
		case *ast.TypeSpec:
			d.Doc, d.Comment = nil, nil
		case *ast.ValueSpec:
			d.Doc, d.Comment = nil, nil
		case *ast.ImportSpec:
			d.Doc, d.Comment = nil, nil
		}
		return true
	})
	f.Doc = nil

	inSelectComm := map[ast.Node]bool{}
	astutil.Apply(f, func(c *astutil.Cursor) bool {
		// pre-order: mark the comm statements of selects so the generic
		// send/recv rewrites do not touch them
		if s, ok := c.Node().(*ast.SelectStmt); ok {
			for _, cl := range s.Body.List {
				if cc := cl.(*ast.CommClause); cc.Comm != nil {
					inSelectComm[cc.Comm] = true
					if as, ok := cc.Comm.(*ast.AssignStmt); ok {
						inSelectComm[as.Rhs[0]] = true
					}
					if es, ok := cc.Comm.(*ast.ExprStmt); ok {
						inSelectComm[es.X] = true
					}
				}
			}
		}
		return true
	}, func(c *astutil.Cursor) bool {
		switch n := c.Node().(type) {
		case *ast.GoStmt:
			c.Replace(r.rewriteGo(n))
		case *ast.SelectStmt:
			if len(n.Body.List) == 0 {
				rep.Unsealed = append(rep.Unsealed, fmt.Sprintf("%s:%d empty select", rel, fset.Position(n.Pos()).Line))
				return true
			}
			if _, labeled := c.Parent().(*ast.LabeledStmt); labeled {
				rep.Unsealed = append(rep.Unsealed, fmt.Sprintf("%s:%d labeled select", rel, fset.Position(n.Pos()).Line))
				return true
			}
			c.Replace(r.rewriteSelect(n))
		case *ast.SendStmt:
			if inSelectComm[n] {
				return true
			}
			rep.Rewrites["send"]++
			c.Replace(&ast.ExprStmt{X: r.call("Send", r.site(n.Pos()), n.Chan, n.Value)})
		case *ast.AssignStmt:
			if inSelectComm[n] {
				return true
			}
			if len(n.Rhs) == 1 && len(n.Lhs) == 2 {
				if u, ok := isRecv(n.Rhs[0]); ok {
					rep.Rewrites["recv2"]++
					n.Rhs[0] = r.call("Recv2", r.site(n.Pos()), u.X)
				}
			}
		case *ast.ValueSpec:
			if len(n.Values) == 1 && len(n.Names) == 2 {
				if u, ok := isRecv(n.Values[0]); ok {
					rep.Rewrites["recv2"]++
					n.Values[0] = r.call("Recv2", r.site(n.Pos()), u.X)
				}
			}
		case *ast.UnaryExpr:
			if n.Op != token.ARROW || inSelectComm[n] {
				return true
			}
			// comma-ok forms were rewritten above when visiting the parent?  No:
			// post-order visits children first, so guard here.
			switch par := c.Parent().(type) {
			case *ast.AssignStmt:
				if len(par.Lhs) == 2 && len(par.Rhs) == 1 {
					return true
				}
				if inSelectComm[par] {
					return true
				}
			case *ast.ValueSpec:
				if len(par.Names) == 2 && len(par.Values) == 1 {
					return true
				}
			}
			rep.Rewrites["recv"]++
			c.Replace(r.call("Recv", r.site(n.Pos()), n.X))
		case *ast.RangeStmt:
			if st := r.rewriteRange(n); st != nil {
				c.Replace(st)
			}
		case *ast.CallExpr:
			// rtp.NewRandomSequencer() starts at a number pion/rtp draws from a generator nobody can seed:
			// the start comes from the plan instead
			if sel, ok := n.Fun.(*ast.SelectorExpr); ok && sel.Sel.Name == "NewRandomSequencer" && len(n.Args) == 0 {
				if x, ok := sel.X.(*ast.Ident); ok {
					if pn, ok := p.TypesInfo.Uses[x].(*types.PkgName); ok && pn.Imported().Path() == "github.com/pion/rtp" {
						rep.Rewrites["rtp.NewRandomSequencer"]++
						c.Replace(&ast.CallExpr{Fun: &ast.SelectorExpr{X: ast.NewIdent(x.Name), Sel: ast.NewIdent("NewFixedSequencer")}, Args: []ast.Expr{r.call("SeqStart")}})
					}
				}
			}
		case *ast.ExprStmt:
			if call, ok := n.X.(*ast.CallExpr); ok {
				if id, ok := call.Fun.(*ast.Ident); ok && id.Name == "close" && len(call.Args) == 1 {
					if _, isB := p.TypesInfo.Uses[id].(*types.Builtin); isB {
						if _, inList := c.Parent().(*ast.BlockStmt); inList || isClauseParent(c.Parent()) {
							rep.Rewrites["close"]++
							c.InsertBefore(&ast.ExprStmt{X: r.call("Yield", r.site(n.Pos()))})
						}
					}
				}
			}
		}
		return true
	})
	if r.usedRT {
		astutil.AddNamedImport(fset, f, rt, "verif/simrt")
	}
	var buf bytes.Buffer
	if err := format.Node(&buf, fset, f); err != nil {
		fatal("format %s: %v", rel, err)
	}
	return buf.Bytes()
}

func isClauseParent(n ast.Node) bool {
	switch n.(type) {
	case *ast.CaseClause, *ast.CommClause:
		return true
	}
	return false
}

// go f(a, b)  =>  { fn := f; a0 := a; a1 := b; simrt.Go(site, func() { fn(a0, a1) }) }
func (r *rewriter) rewriteGo(n *ast.GoStmt) ast.Stmt {
	rep.Rewrites["go"]++
	var pre []ast.Stmt
	call := n.Call
	fun := call.Fun
	if _, isLit := fun.(*ast.FuncLit); !isLit {
		if id, ok := fun.(*ast.Ident); !ok || !r.isPkgFunc(id) {
			t := r.tmp("fn")
			pre = append(pre, define(t, fun))
			fun = t
		}
	}
	args := make([]ast.Expr, len(call.Args))
	for i, a := range call.Args {
		if r.isConst(a) || r.isNil(a) {
			args[i] = a
			continue
		}
		t := r.tmp("a")
		pre = append(pre, define(t, a))
		args[i] = t
	}
	inner := &ast.CallExpr{Fun: fun, Args: args, Ellipsis: call.Ellipsis}
	lit := &ast.FuncLit{Type: &ast.FuncType{Params: &ast.FieldList{}}, Body: &ast.BlockStmt{List: []ast.Stmt{&ast.ExprStmt{X: inner}}}}
	pre = append(pre, &ast.ExprStmt{X: r.call("Go", r.site(n.Pos()), lit)})
	return &ast.BlockStmt{List: pre}
}

func (r *rewriter) isPkgFunc(id *ast.Ident) bool {
	obj := r.p.TypesInfo.Uses[id]
	fn, ok := obj.(*types.Func)
	return ok && fn.Parent() == fn.Pkg().Scope()
}

func (r *rewriter) rewriteSelect(n *ast.SelectStmt) ast.Stmt {
	rep.Rewrites["select"]++
	site := r.site(n.Pos())
	var pre []ast.Stmt
	pre = append(pre, &ast.ExprStmt{X: r.call("Yield", site)})
	sel := r.tmp("sel")
	pre = append(pre, define(sel, &ast.UnaryExpr{Op: token.SUB, X: intLit(1)}))

	type caseInfo struct {
		comm  func() ast.Stmt // builds a fresh comm statement
		body  []ast.Stmt
		isDef bool
	}
	var cases []caseInfo
	defIdx := -1
	for _, cl := range n.Body.List {
		cc := cl.(*ast.CommClause)
		ci := caseInfo{body: cc.Body}
		switch cm := cc.Comm.(type) {
		case nil:
			ci.isDef = true
			defIdx = len(cases)
		case *ast.SendStmt:
			ch := r.tmp("c")
			pre = append(pre, define(ch, cm.Chan))
			var val ast.Expr = cm.Value
			if !r.isConst(cm.Value) && !r.isNil(cm.Value) {
				v := r.tmp("v")
				pre = append(pre, define(v, cm.Value))
				val = v
			}
			ci.comm = func() ast.Stmt { return &ast.SendStmt{Chan: ch, Value: val} }
		case *ast.ExprStmt:
			u, ok := isRecv(cm.X)
			if !ok {
				fatal("%s: unexpected select comm", r.rel)
			}
			ch := r.tmp("c")
			pre = append(pre, define(ch, u.X))
			ci.comm = func() ast.Stmt { return &ast.ExprStmt{X: &ast.UnaryExpr{Op: token.ARROW, X: ch}} }
		case *ast.AssignStmt:
			u, ok := isRecv(cm.Rhs[0])
			if !ok {
				fatal("%s: unexpected select comm assign", r.rel)
			}
			ch := r.tmp("c")
			pre = append(pre, define(ch, u.X))
			if cm.Tok == token.DEFINE {
				// hoist: var hv = Zero(ch); [var hok bool]; body: v := hv
				var lhs []ast.Expr
				var bind []ast.Stmt
				for i, l := range cm.Lhs {
					id := l.(*ast.Ident)
					if id.Name == "_" {
						lhs = append(lhs, ast.NewIdent("_"))
						continue
					}
					h := r.tmp("r")
					if i == 0 {
						pre = append(pre, define(h, r.call("Zero", ch)))
					} else {
						pre = append(pre, define(h, ast.NewIdent("false")))
					}
					lhs = append(lhs, h)
					bind = append(bind, define(ast.NewIdent(id.Name), h), assign(ast.NewIdent("_"), ast.NewIdent(id.Name)))
				}
				ci.body = append(bind, cc.Body...)
				ci.comm = func() ast.Stmt {
					return &ast.AssignStmt{Lhs: lhs, Tok: token.ASSIGN, Rhs: []ast.Expr{&ast.UnaryExpr{Op: token.ARROW, X: ch}}}
				}
			} else {
				lhs := cm.Lhs
				ci.comm = func() ast.Stmt {
					return &ast.AssignStmt{Lhs: lhs, Tok: token.ASSIGN, Rhs: []ast.Expr{&ast.UnaryExpr{Op: token.ARROW, X: ch}}}
				}
			}
		default:
			fatal("%s: unexpected select comm %T", r.rel, cm)
		}
		cases = append(cases, ci)
	}
	// probe loop
	var nonDef []int
	for i, ci := range cases {
		if !ci.isDef {
			nonDef = append(nonDef, i)
		}
	}
	setSel := func(i int) ast.Stmt { return assign(sel, intLit(i)) }
	if len(nonDef) > 0 {
		iv := r.tmp("i")
		var probeCases []ast.Stmt
		for k, i := range nonDef {
			probe := &ast.SelectStmt{Body: &ast.BlockStmt{List: []ast.Stmt{
				&ast.CommClause{Comm: cases[i].comm(), Body: []ast.Stmt{setSel(i)}},
				&ast.CommClause{},
			}}}
			probeCases = append(probeCases, &ast.CaseClause{List: []ast.Expr{intLit(k)}, Body: []ast.Stmt{probe}})
		}
		loop := &ast.RangeStmt{Key: ast.NewIdent("_"), Value: iv, Tok: token.DEFINE, X: r.call("SelOrder", intLit(len(nonDef))), Body: &ast.BlockStmt{List: []ast.Stmt{
			&ast.SwitchStmt{Tag: iv, Body: &ast.BlockStmt{List: probeCases}},
			&ast.IfStmt{Cond: &ast.BinaryExpr{X: sel, Op: token.GEQ, Y: intLit(0)}, Body: &ast.BlockStmt{List: []ast.Stmt{&ast.BranchStmt{Tok: token.BREAK}}}},
		}}}
		pre = append(pre, loop)
	}
	// fallback
	var fb []ast.Stmt
	if defIdx >= 0 {
		fb = append(fb, setSel(defIdx))
	} else {
		g := r.tmp("g")
		fb = append(fb, define(g, r.call("Block", site)))
		var cls []ast.Stmt
		for _, i := range nonDef {
			cls = append(cls, &ast.CommClause{Comm: cases[i].comm(), Body: []ast.Stmt{setSel(i)}})
		}
		fb = append(fb, &ast.SelectStmt{Body: &ast.BlockStmt{List: cls}})
		fb = append(fb, &ast.ExprStmt{X: r.call("Resume", g)})
	}
	pre = append(pre, &ast.IfStmt{Cond: &ast.BinaryExpr{X: sel, Op: token.LSS, Y: intLit(0)}, Body: &ast.BlockStmt{List: fb}})
	// dispatch
	var disp []ast.Stmt
	for i, ci := range cases {
		disp = append(disp, &ast.CaseClause{List: []ast.Expr{intLit(i)}, Body: ci.body})
	}
	disp = append(disp, &ast.CaseClause{Body: []ast.Stmt{&ast.ExprStmt{X: &ast.CallExpr{Fun: ast.NewIdent("panic"), Args: []ast.Expr{&ast.BasicLit{Kind: token.STRING, Value: `"simrt: bad select index"`}}}}}})
	pre = append(pre, &ast.SwitchStmt{Tag: sel, Body: &ast.BlockStmt{List: disp}})
	return &ast.BlockStmt{List: pre}
}

func (r *rewriter) rewriteRange(n *ast.RangeStmt) ast.Stmt {
	tv, ok := r.p.TypesInfo.Types[n.X]
	if !ok {
		return nil
	}
	switch t := tv.Type.Underlying().(type) {
	case *types.Chan:
		if n.Tok == token.ASSIGN {
			rep.Unsealed = append(rep.Unsealed, fmt.Sprintf("%s:%d range chan with =", r.rel, fset.Position(n.Pos()).Line))
			return nil
		}
		rep.Rewrites["range chan"]++
		ch := r.tmp("c")
		okv := r.tmp("ok")
		var key ast.Expr = ast.NewIdent("_")
		if n.Key != nil {
			key = n.Key
		}
		body := []ast.Stmt{
			&ast.AssignStmt{Lhs: []ast.Expr{key, okv}, Tok: token.DEFINE, Rhs: []ast.Expr{r.call("Recv2", r.site(n.Pos()), ch)}},
			&ast.IfStmt{Cond: &ast.UnaryExpr{Op: token.NOT, X: okv}, Body: &ast.BlockStmt{List: []ast.Stmt{&ast.BranchStmt{Tok: token.BREAK}}}},
		}
		body = append(body, n.Body.List...)
		return &ast.BlockStmt{List: []ast.Stmt{
			define(ch, n.X),
			&ast.ForStmt{Body: &ast.BlockStmt{List: body}},
		}}
	case *types.Map:
		if n.Tok == token.ASSIGN {
			rep.Unsealed = append(rep.Unsealed, fmt.Sprintf("%s:%d range map with =", r.rel, fset.Position(n.Pos()).Line))
			return nil
		}
		rep.Rewrites["range map"]++
		m := r.tmp("m")
		fn := "KeysAny"
		if b, ok := t.Key().Underlying().(*types.Basic); ok && b.Info()&types.IsOrdered != 0 {
			fn = "Keys"
		}
		var key ast.Expr
		if id, ok := n.Key.(*ast.Ident); ok && id.Name != "_" {
			key = id
		} else {
			key = r.tmp("k")
		}
		var body []ast.Stmt
		okv := r.tmp("ok")
		var val ast.Expr = ast.NewIdent("_")
		if id, ok := n.Value.(*ast.Ident); ok && id.Name != "_" {
			val = id
		}
		body = append(body,
			&ast.AssignStmt{Lhs: []ast.Expr{val, okv}, Tok: token.DEFINE, Rhs: []ast.Expr{&ast.IndexExpr{X: m, Index: key}}},
			&ast.IfStmt{Cond: &ast.UnaryExpr{Op: token.NOT, X: okv}, Body: &ast.BlockStmt{List: []ast.Stmt{&ast.BranchStmt{Tok: token.CONTINUE}}}},
		)
		body = append(body, n.Body.List...)
		return &ast.BlockStmt{List: []ast.Stmt{
			define(m, n.X),
			&ast.RangeStmt{Key: ast.NewIdent("_"), Value: key, Tok: token.DEFINE, X: r.call(fn, m), Body: &ast.BlockStmt{List: body}},
		}}
	}
	return nil
}
