module verif

go 1.26.8

require (
	github.com/anishathalye/porcupine v1.3.0
	github.com/pion/interceptor v0.0.0
	github.com/pion/logging v0.2.4
	github.com/pion/rtcp v1.2.17
	github.com/pion/rtp v1.10.5
	golang.org/x/tools v0.50.0
)

require (
	github.com/pion/randutil v0.1.0 // indirect
	golang.org/x/mod v0.41.0 // indirect
	golang.org/x/sync v0.23.0 // indirect
	golang.org/x/time v0.14.0 // indirect
)

replace github.com/pion/interceptor => /repo
