package gcc

// This file exists only in the verification overlay (it is not part of the
// repository): read-only accessors for state the properties talk about.

// XPacerTarget returns the rate the estimator's pacer currently works with, when
// the pacer is the built-in leaky bucket pacer.
func XPacerTarget(e *SendSideBWE) (rate int, factor float64, ok bool) {
	p, isLeaky := e.pacer.(*LeakyBucketPacer)
	if !isLeaky {
		return 0, 0, false
	}
	return p.getTargetBitrate(), p.f, true
}
