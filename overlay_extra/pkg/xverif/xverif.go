// Package xverif exists only in the verification overlay (it is not part of the
// repository): it re-exports internal packages so that the harness module can
// drive them.
package xverif

import (
	"github.com/pion/interceptor/internal/cc"
)

type (
	FeedbackAdapter = cc.FeedbackAdapter
	Acknowledgment  = cc.Acknowledgment
)

const TwccExtensionAttributesKey = cc.TwccExtensionAttributesKey

func NewFeedbackAdapter() *FeedbackAdapter { return cc.NewFeedbackAdapter() }
