package props

import (
	"bytes"
	"errors"
	"fmt"
	"time"

	"github.com/pion/interceptor"
	"github.com/pion/interceptor/pkg/nack"
	"github.com/pion/rtcp"
	"github.com/pion/rtp"

	"verif/simrt"
)

// C01: media transparency of any chain of pass-through interceptors.

type c01 struct{}

func init() { register(c01{}) }

func (c01) ID() string { return "C01" }

var c01Kinds = []string{"nack_gen", "nack_resp", "report_recv", "report_send", "twcc_send", "twcc_hdr", "rfc8888", "rtpfb", "stats", "dump_send", "dump_recv", "intervalpli", "flexfec", "cc_noop"}

func (c01) Gen(seed int64, tier string, avoid []string) *Plan {
	p, r := newPlan("C01", seed, tier, avoid)
	cfg := RigCfg{RTCPReaders: pick(r, 1, 1, 2), DrainMs: 250, StrictFB: true}
	nk := pick(r, 0, 1, 2, 3, 4, 5, 6)
	for i := 0; i < nk; i++ {
		cfg.Kinds = append(cfg.Kinds, c01Kinds[r.Intn(len(c01Kinds))])
		cfg.KSeed = append(cfg.KSeed, r.Int63())
	}
	if chance(r, 100) {
		cfg.RTCPWErrAt = 1 + r.Intn(8)
	}
	if chance(r, 40) {
		cfg.Kinds = append(cfg.Kinds, "invalid_option")
		cfg.KSeed = append(cfg.KSeed, r.Int63())
	}
	genRigTraffic(r, &cfg, p, tier, rigTrafficOpts{nackBias: chance(r, 500), errors: chance(r, 600), observers: chance(r, 400), lifecycle: chance(r, 250)})
	// the cc interceptor needs the transport-wide number on TWCC streams: keep the configuration meaningful
	cfg2 := cfgOf[RigCfg](p)
	lastCC, lastHdr := -1, -1
	for i, k := range cfg2.Kinds {
		if k == "cc_noop" {
			lastCC = i
		}
		if k == "twcc_hdr" {
			lastHdr = i
		}
	}
	if lastCC >= 0 && lastHdr < lastCC {
		// the member nearest to the application that needs the number sees the packet before any header-extension member
		for i := range cfg2.Local {
			cfg2.Local[i].TWCC = 0
		}
	}
	if len(cfg2.Kinds) > 0 && chance(r, 300) {
		// chains nest: a run of members (and of the spies between them) is a chain of its own
		flat := 2*len(cfg2.Kinds) + 1
		cfg2.NestAt = r.Intn(flat)
		cfg2.NestLen = 1 + r.Intn(flat-cfg2.NestAt)
	}
	p.Cfg = mustJSON(cfg2)
	return p
}

// spy is a harness interceptor placed between the members of the chain.
type c01Spy struct {
	idx                      int
	bindOrder                *[]int
	unbindL, unbindR, closes map[uint32]int
	nClose                   int
	closeErr                 error
	rtpW, rtpR, rtcpW, rtcpR int
}

func (s *c01Spy) BindRTCPReader(r interceptor.RTCPReader) interceptor.RTCPReader {
	return interceptor.RTCPReaderFunc(func(b []byte, a interceptor.Attributes) (int, interceptor.Attributes, error) {
		c01Inc(&s.rtcpR)
		return r.Read(b, a)
	})
}
func (s *c01Spy) BindRTCPWriter(w interceptor.RTCPWriter) interceptor.RTCPWriter {
	c01Order(s.bindOrder, s.idx)
	return interceptor.RTCPWriterFunc(func(p []rtcp.Packet, a interceptor.Attributes) (int, error) {
		c01Inc(&s.rtcpW)
		return w.Write(p, a)
	})
}
func (s *c01Spy) BindLocalStream(_ *interceptor.StreamInfo, w interceptor.RTPWriter) interceptor.RTPWriter {
	return interceptor.RTPWriterFunc(func(h *rtp.Header, p []byte, a interceptor.Attributes) (int, error) {
		c01Inc(&s.rtpW)
		return w.Write(h, p, a)
	})
}
func (s *c01Spy) BindRemoteStream(_ *interceptor.StreamInfo, r interceptor.RTPReader) interceptor.RTPReader {
	return interceptor.RTPReaderFunc(func(b []byte, a interceptor.Attributes) (int, interceptor.Attributes, error) {
		c01Inc(&s.rtpR)
		return r.Read(b, a)
	})
}
func (s *c01Spy) UnbindLocalStream(i *interceptor.StreamInfo)  { c01Count(s.unbindL, i.SSRC) }
func (s *c01Spy) UnbindRemoteStream(i *interceptor.StreamInfo) { c01Count(s.unbindR, i.SSRC) }
func (s *c01Spy) Close() error                                 { c01Inc(&s.nClose); return s.closeErr }

//go:norace
func c01Inc(p *int) { *p++ }

//go:norace
func c01Count(m map[uint32]int, k uint32) { m[k]++ }

//go:norace
func c01Order(o *[]int, i int) { *o = append(*o, i) }

type c01SpyFactory struct{ spy *c01Spy }

func (f c01SpyFactory) NewInterceptor(string) (interceptor.Interceptor, error) { return f.spy, nil }

type c01BadFactory struct{}

func (c01BadFactory) NewInterceptor(string) (interceptor.Interceptor, error) {
	f, _ := nack.NewGeneratorInterceptor(nack.GeneratorSize(100)) // not a power of two: the constructor must refuse
	return f.NewInterceptor("")
}

func (c01) Run(e *Env) {
	cfg := cfgOf[RigCfg](e.Plan)
	ops := opsOf[RigOp](e.Plan)
	e.SetSample(fmt.Sprintf("chain=%v local=%d remote=%d rtcp_werr_at=%d ops=%d", cfg.Kinds, len(cfg.Local), len(cfg.Remote), cfg.RTCPWErrAt, len(ops)))
	// an invalid option setting must make Build fail with the constructor's error
	for i, k := range cfg.Kinds {
		if k == "invalid_option" {
			reg := &interceptor.Registry{}
			rg0 := newRig(e, cfg, nil)
			for j := 0; j < i; j++ {
				if f, err := rg0.buildKind(cfg.Kinds[j], cfg.KSeed[j]); err == nil {
					reg.Add(f)
				}
			}
			reg.Add(c01BadFactory{})
			_, err := reg.Build("x")
			e.Check()
			if err == nil || !errors.Is(err, nack.ErrInvalidSize) {
				e.Violatef("oracle", "c01:invalid-option-accepted", "Registry.Build with an invalid generator size returned %v, want the constructor's ErrInvalidSize", err)
			}
			e.Probe("invalid_option_rejected")
			cfg.Kinds, cfg.KSeed = cfg.Kinds[:i], cfg.KSeed[:i]
			break
		}
	}
	rg := newRig(e, cfg, ops)
	var order []int
	spies := make([]*c01Spy, len(cfg.Kinds)+1)
	ok := rg.Build(func(i int) interceptor.Factory {
		if len(cfg.Kinds) == 0 {
			return nil // the empty registry must be a pure pass-through
		}
		sp := &c01Spy{idx: i, bindOrder: &order, unbindL: map[uint32]int{}, unbindR: map[uint32]int{}}
		if i%2 == 1 {
			sp.closeErr = fmt.Errorf("spy %d: %w", i, errRigSpy)
		}
		spies[i] = sp
		return c01SpyFactory{sp}
	})
	if !ok {
		e.Violatef("oracle", "c01:construct", "chain %v does not build: %v", cfg.Kinds, rg.BuildErr)
		return
	}
	rg.Bind()
	rg.Run()
	simrt.Sleep(time.Duration(cfg.DrainMs) * time.Millisecond)
	// unbind everything that is still bound, then close: each member must see each exactly once
	for s := range cfg.Local {
		if rg.unboundL[s] == 0 {
			rg.chain.UnbindLocalStream(rg.linfo[s])
		}
	}
	for s := range cfg.Remote {
		if rg.unboundR[s] == 0 {
			rg.chain.UnbindRemoteStream(rg.rinfo[s])
		}
	}
	var closeErr error
	closedEarly := rg.closeEnt != 0
	if !closedEarly {
		closeErr = rg.DoClose()
	}
	e.AtEnd(func() { c01Oracle(e, rg, spies, order, closeErr, closedEarly) })
}

func c01Oracle(e *Env, rg *Rig, spies []*c01Spy, order []int, closeErr error, closedEarly bool) {
	cfg := rg.cfg
	has := func(k string) bool { return countMembers(cfg.Kinds, k) > 0 }
	// ---- (e) lifecycle delivery
	if len(cfg.Kinds) > 0 {
		for i, sp := range spies {
			e.Check()
			if sp.nClose != 1 {
				e.Violatef("oracle", "c01:close-delivery", "chain member %d of %d saw Close %d times (want exactly once)", i, len(spies), sp.nClose)
			}
			for _, st := range cfg.Local {
				if sp.unbindL[st.SSRC] != 1 {
					e.Violatef("oracle", "c01:unbind-delivery", "chain member %d saw UnbindLocalStream(%d) %d times", i, st.SSRC, sp.unbindL[st.SSRC])
				}
			}
			for _, st := range cfg.Remote {
				if sp.unbindR[st.SSRC] != 1 {
					e.Violatef("oracle", "c01:unbind-delivery", "chain member %d saw UnbindRemoteStream(%d) %d times", i, st.SSRC, sp.unbindR[st.SSRC])
				}
			}
			if !closedEarly && sp.closeErr != nil && !errors.Is(closeErr, sp.closeErr) {
				e.Violatef("oracle", "c01:close-error-lost", "Close error of member %d is not preserved in the chain's Close error %v", i, closeErr)
			}
		}
		for i := 1; i < len(order); i++ {
			if order[i] <= order[i-1] {
				e.Violatef("oracle", "c01:bind-order", "members were bound in order %v, want factory order", order)
				break
			}
		}
	}
	// ---- (a)(b) outgoing RTP
	twccPos := -1
	for i, k := range cfg.Kinds {
		if k == "twcc_hdr" {
			twccPos = i
		}
	}
	for s, st := range cfg.Local {
		var app []*rigOut
		for _, o := range rg.Out {
			if o.stream != s {
				continue
			}
			if o.tag != 0 && !o.byLib {
				app = append(app, o)
			}
		}
		var writes []*rigWrite
		for _, w := range rg.Writes {
			if w.stream == s {
				writes = append(writes, w)
			}
		}
		// every application packet reaches the next writer exactly once, in order
		ai := 0
		for _, w := range writes {
			e.Check()
			closedDuring := rg.closeEnt != 0 && w.ret > rg.closeEnt
			unboundDuring := rg.unboundL[s] != 0 && w.ret > rg.unboundL[s]
			if w.innerCalls != 1 {
				if (closedDuring || unboundDuring) && w.innerCalls == 0 {
					continue // passed through or refused with an error after Close/Unbind: C11's business
				}
				e.Violatef("oracle", "c01:rtp-write-count", "stream %d seq %d (%d-byte payload) reached the next writer %d times (Write returned %d, %v) through %v", st.SSRC, w.seq, len(w.payload), w.innerCalls, w.n, w.err, cfg.Kinds)
				continue
			}
			if ai >= len(app) || app[ai].tag != w.op.HS {
				e.Violatef("oracle", "c01:rtp-order", "stream %d: application packets reached the next writer out of order (seq %d)", st.SSRC, w.seq)
				break
			}
			got := app[ai]
			ai++
			if !bytes.Equal(got.payload, w.payload) {
				e.Violatef("oracle", "c01:payload-changed", "stream %d seq %d: payload bytes differ at the next writer", st.SSRC, w.seq)
			}
			skip := uint8(0)
			if st.TWCC != 0 && twccPos >= 0 {
				skip = uint8(st.TWCC)
			}
			if d := hdrDiff(&w.hdr, &got.hdr, skip); d != "" || w.hdr.PaddingSize != got.hdr.PaddingSize {
				e.Violatef("oracle", "c01:header-changed", "stream %d seq %d: header differs at the next writer: %s", st.SSRC, w.seq, d)
			}
			if w.innerErr {
				if w.err == nil || !errors.Is(w.err, errInjected) {
					e.Violatef("oracle", "c01:write-error-swallowed", "stream %d seq %d: the next writer failed but Write returned (%d, %v)", st.SSRC, w.seq, w.n, w.err)
				}
				e.Probe("writer_error_returned")
			} else if w.err != nil {
				// an injected packet (FEC) of the same call may have failed: not this one
				if !has("flexfec") {
					e.Violatef("oracle", "c01:spurious-write-error", "stream %d seq %d: Write returned error %v although the next writer accepted the packet", st.SSRC, w.seq, w.err)
				}
			} else if w.n != len(w.payload) {
				e.Violatef("oracle", "c01:write-result", "stream %d seq %d: Write returned n=%d, the next writer returned %d", st.SSRC, w.seq, w.n, len(w.payload))
			}
		}
		// injected packets never replace or alter application packets: anything else on the stream's writer is an addition
		for _, o := range rg.Out {
			if o.stream == s && o.tag == 0 && o.hdr.SSRC == st.SSRC && !o.byLib {
				e.Violatef("oracle", "c01:foreign-packet-on-media-ssrc", "a packet with the media SSRC %d (seq %d) that the application did not write reached the next writer from the application's goroutine", st.SSRC, o.hdr.SequenceNumber)
			}
		}
	}
	// ---- (c) incoming RTP and RTCP
	for _, rd := range rg.Reads {
		e.Check()
		if rd.innerErr {
			if rd.err == nil || !errors.Is(rd.err, errInjected) {
				e.Violatef("oracle", "c01:read-error-swallowed", "the wrapped reader failed but Read returned (%d, %v)", rd.n, rd.err)
			}
			e.Probe("reader_error_returned")
			continue
		}
		if rg.closeEnt != 0 && rd.ret > rg.closeEnt {
			continue
		}
		if rd.err != nil {
			e.Violatef("oracle", "c01:spurious-read-error", "Read of a well-formed %d-byte packet through %v failed: %v", len(rd.raw), cfg.Kinds, rd.err)
			continue
		}
		if rd.n != len(rd.raw) || !bytes.Equal(rd.got, rd.raw) {
			e.Violatef("oracle", "c01:read-bytes", "Read returned %d bytes, the transport delivered %d (bytes equal: %v)", rd.n, len(rd.raw), bytes.Equal(rd.got, rd.raw))
			continue
		}
		if rd.attrHdr != nil && rd.stream >= 0 {
			var want rtp.Header
			if _, err := want.Unmarshal(rd.raw); err == nil {
				if d := hdrDiff(&want, rd.attrHdr, 0); d != "" {
					e.Violatef("oracle", "c01:cached-header", "the header cached in the attributes does not describe the bytes read: %s", d)
				}
			}
		}
	}
	// ---- (d) a packet whose read failed is not accounted in generated feedback
	failed := map[uint32]map[uint16]bool{}
	okRead := map[uint32]map[uint16]bool{}
	for _, rd := range rg.Reads {
		if rd.stream < 0 {
			continue
		}
		var h rtp.Header
		if _, err := h.Unmarshal(rd.raw); err != nil {
			continue
		}
		m := okRead
		if rd.innerErr {
			m = failed
		}
		if m[h.SSRC] == nil {
			m[h.SSRC] = map[uint16]bool{}
		}
		m[h.SSRC][h.SequenceNumber] = true
	}
	for _, o := range rg.RTCPOut {
		for _, p := range o.pkts {
			if fb, ok := p.(*rtcp.CCFeedbackReport); ok {
				for _, blk := range fb.ReportBlocks {
					for i, mb := range blk.MetricBlocks {
						seq := blk.BeginSequence + uint16(i)
						if mb.Received && failed[blk.MediaSSRC][seq] && !okRead[blk.MediaSSRC][seq] {
							e.Violatef("oracle", "c01:failed-read-accounted", "RFC 8888 feedback marks seq %d of SSRC %d received although its read failed", seq, blk.MediaSSRC)
						}
					}
				}
			}
		}
	}
	// ---- RTCP written by the application passes through: once, unchanged, and the caller's batch is left alone
	_ = has
	for _, a := range rg.AppRTCP {
		e.Check()
		var outs []*rigRTCPOut
		for _, o := range rg.RTCPOut {
			if o.app && o.gid == a.gid && o.step >= a.enter && o.step <= a.ret {
				outs = append(outs, o)
			}
		}
		if a.ret == 1<<60 {
			continue // still inside the call at the end of the run (reported as stranded elsewhere)
		}
		if !bytes.Equal(a.before, a.after) {
			e.Violatef("oracle", "c01:rtcp-batch-modified", "the RTCP batch the application wrote was modified in place by %v (marshals to %x before the call, %x after)", cfg.Kinds, a.before, a.after)
		}
		if len(outs) != 1 {
			e.Violatef("oracle", "c01:rtcp-write-count", "an RTCP batch written by the application reached the next RTCP writer %d times through %v", len(outs), cfg.Kinds)
			continue
		}
		o := outs[0]
		if !bytes.Equal(o.raw, a.before) {
			e.Violatef("oracle", "c01:rtcp-write-altered", "the application wrote RTCP %x, the next RTCP writer received %x through %v", a.before, o.raw, cfg.Kinds)
		}
		if o.err != (a.err != nil) || (a.err != nil && !errors.Is(a.err, errInjected)) {
			e.Violatef("oracle", "c01:rtcp-write-result", "the next RTCP writer failed=%v, Write returned %v", o.err, a.err)
		}
		e.Probe("app_rtcp_checked")
	}
}
