package props

import (
	"bytes"
	"encoding/binary"
	"fmt"
	"math/rand"
	"sort"
	"time"

	"github.com/pion/rtcp"
	"github.com/pion/rtp"

	"verif/simrt"
)

// C02: no untrusted packet can crash or wedge an interceptor.

type c02 struct{}

func init() { register(c02{}) }

func (c02) ID() string { return "C02" }

func (c02) Gen(seed int64, tier string, avoid []string) *Plan {
	p, r := newPlan("C02", seed, tier, avoid)
	avoidSet := map[string]bool{}
	for _, a := range avoid {
		avoidSet[a] = true
	}
	cfg := RigCfg{RTCPReaders: pick(r, 1, 1, 2), DrainMs: 150, Reuse: true}
	nk := pick(r, 1, 1, 2, 3)
	for i := 0; i < nk; i++ {
		k := rigKinds[r.Intn(len(rigKinds))]
		if avoidSet["c02-"+k] {
			k = "report_recv"
		}
		cfg.Kinds = append(cfg.Kinds, k)
		cfg.KSeed = append(cfg.KSeed, r.Int63())
	}
	// a congestion controller only keeps a history of sent transport-wide numbers when a
	// header-extension member sits nearer to the application
	needTWCC := false
	for _, k := range cfg.Kinds {
		if (k == "cc_noop" || k == "cc_leaky" || k == "rtpfb") && chance(r, 700) {
			needTWCC = true
		}
	}
	if needTWCC {
		cfg.Kinds = append(cfg.Kinds, "twcc_hdr")
		cfg.KSeed = append(cfg.KSeed, r.Int63())
	}
	if chance(r, 300) {
		cfg.RTCPWErrAt = 1 + r.Intn(6) // the transport fails one RTCP write (every other time as a closed pipe)
	}
	genRigTraffic(r, &cfg, p, tier, rigTrafficOpts{nackBias: chance(r, 300), observers: chance(r, 300), fbBias: needTWCC})
	cfg = cfgOf[RigCfg](p)
	if needTWCC {
		for i := range cfg.Local {
			cfg.Local[i].TWCC = 5
		}
		p.Cfg = mustJSON(cfg)
	}
	ops := opsOf[RigOp](p)
	rng := rand.New(rand.NewSource(seed ^ 0xc02))
	big := !avoidSet["c02-payload>1460"]
	for i := range ops {
		o := &ops[i]
		switch o.K {
		case "r":
			if chance(rng, 600) {
				st := cfg.Remote[o.S%len(cfg.Remote)]
				base := rawRTP(hdrFromSeed(o.HS, st.SSRC, st.PT, uint16(rng.Intn(65536)), rng.Uint32(), 0), payloadFromSeed(o.HS, o.Len))
				o.Raw = c02Mutate(rng, base, true)
			}
		case "c":
			if chance(rng, 700) {
				o.Raw = c02RTCP(rng, cfg)
			}
		case "w":
			if big && chance(rng, 150) {
				o.Len = pick(rng, 1461, 1500, 1501, 2000, 9000, 65535)
			}
		}
	}
	// every hostile packet is followed by a well-formed probe on the same path
	var out []RigOp
	for _, o := range ops {
		out = append(out, o)
		if len(o.Raw) > 0 {
			probe := o
			probe.Raw = nil
			probe.HS = rng.Int63()
			probe.AtUs += 10
			if probe.K == "c" {
				probe.RK = pick(rng, "sr", "rr", "nack", "pli")
			}
			out = append(out, probe)
		}
	}
	sort.SliceStable(out, func(i, j int) bool { return out[i].AtUs < out[j].AtUs })
	setOps(p, out)
	return p
}

// c02Mutate applies byte-level corruption.
func c02Mutate(r *rand.Rand, b []byte, isRTP bool) []byte {
	b = append([]byte{}, b...)
	for k := 1 + r.Intn(3); k > 0; k-- {
		if len(b) == 0 {
			b = []byte{byte(r.Intn(256))}
		}
		switch r.Intn(9) {
		case 0: // bit flip
			i := r.Intn(len(b))
			b[i] ^= 1 << uint(r.Intn(8))
		case 1: // overwrite
			i := r.Intn(len(b))
			b[i] = byte(r.Intn(256))
		case 2: // truncate at every length
			b = b[:r.Intn(len(b)+1)]
		case 3: // extend
			ext := make([]byte, r.Intn(40))
			r.Read(ext)
			b = append(b, ext...)
		case 4: // splice
			if len(b) > 4 {
				i, j := r.Intn(len(b)), r.Intn(len(b))
				if i > j {
					i, j = j, i
				}
				b = append(b[:i], b[j:]...)
			}
		case 5: // first byte: version / padding / extension / CSRC count bits
			b[0] = byte(r.Intn(256))
		case 6: // length-like 16-bit field
			if len(b) >= 4 {
				binary.BigEndian.PutUint16(b[2:], uint16(pick(r, 0, 1, 0xffff, r.Intn(65536))))
			}
		case 7: // RTP: extension length / RTCP: inner counts
			if len(b) >= 16 {
				binary.BigEndian.PutUint16(b[14:], uint16(pick(r, 0, 1, 0x7fff, 0xffff, r.Intn(64))))
			}
		case 8: // last byte (padding count)
			b[len(b)-1] = byte(pick(r, 0, 1, 4, 255, len(b)))
		}
	}
	if len(b) > 1500 {
		b = b[:1500]
	}
	if len(b) == 0 {
		return []byte{}
	}
	return b
}

// c02RTCP builds RTCP that parses but is internally inconsistent, or is simply corrupt.
func c02RTCP(r *rand.Rand, cfg RigCfg) []byte {
	lssrc := uint32(1100)
	if len(cfg.Local) > 0 {
		lssrc = cfg.Local[r.Intn(len(cfg.Local))].SSRC
	}
	switch r.Intn(7) {
	case 0: // TWCC: run length exceeding the status count / fewer deltas than received symbols
		count := uint16(pick(r, 0, 1, 2, 7, 14, 100))
		b := make([]byte, 20)
		b[0], b[1] = 0x80|15, 205
		binary.BigEndian.PutUint32(b[4:], 1)
		binary.BigEndian.PutUint32(b[8:], lssrc)
		binary.BigEndian.PutUint16(b[12:], uint16(pick(r, 0, 0, 1, r.Intn(20), 65530, r.Intn(65536)))) // sessions start numbering at 0
		binary.BigEndian.PutUint16(b[14:], count)
		b[19] = byte(r.Intn(256))
		for k := 1 + r.Intn(3); k > 0; k-- {
			switch r.Intn(3) {
			case 0:
				b = binary.BigEndian.AppendUint16(b, uint16(r.Intn(4))<<13|uint16(pick(r, 0, 1, 100, 0x1fff)))
			case 1:
				b = binary.BigEndian.AppendUint16(b, 0x8000|uint16(r.Intn(1<<14)))
			default:
				b = binary.BigEndian.AppendUint16(b, 0xC000|uint16(r.Intn(1<<14)))
			}
		}
		for k := r.Intn(6); k > 0; k-- {
			b = append(b, byte(r.Intn(256)))
		}
		for len(b)%4 != 0 {
			b = append(b, 0)
		}
		binary.BigEndian.PutUint16(b[2:], uint16(len(b)/4-1))
		return b
	case 1: // CCFB: wrapped ranges, zero-length reports, huge num_reports
		var blocks []ccfbIn
		for k := r.Intn(3); k > 0; k-- {
			blk := ccfbIn{SSRC: lssrc, Begin: uint16(pick(r, 0, 65535, 65530, r.Intn(65536)))}
			for i := pick(r, 0, 1, 10, 300); i > 0; i-- {
				blk.Metrics = append(blk.Metrics, ccfbMetric{Received: r.Intn(2) == 0, ECN: uint8(r.Intn(4)), ATO: uint16(r.Intn(0x2000))})
			}
			blocks = append(blocks, blk)
		}
		b := encodeCCFB(9, blocks, r.Uint32())
		if chance(r, 400) && len(b) >= 16 {
			binary.BigEndian.PutUint16(b[14:], uint16(pick(r, 0, 0xffff, 16385, r.Intn(65536)))) // num_reports lies
		}
		if len(b) > 1500 {
			b = b[:1500]
			binary.BigEndian.PutUint16(b[2:], uint16(len(b)/4-1))
		}
		return b
	case 2: // well-formed feedback, then corrupted
		syms := make([]twccSym, 1+r.Intn(30))
		for i := range syms {
			syms[i] = twccSym{Recv: r.Intn(3) > 0, DeltaUs: int64(r.Intn(300)) * 250}
		}
		return c02Mutate(r, encodeTWCC(7, lssrc, uint16(r.Intn(65536)), uint32(r.Intn(1<<24)), 0, syms, r, true), false)
	default:
		var pk rtcp.Packet
		switch r.Intn(6) {
		case 0:
			pk = &rtcp.TransportLayerNack{SenderSSRC: 1, MediaSSRC: lssrc, Nacks: []rtcp.NackPair{{PacketID: uint16(r.Intn(65536)), LostPackets: rtcp.PacketBitmap(r.Intn(65536))}}}
		case 1:
			pk = &rtcp.SenderReport{SSRC: 2200, NTPTime: r.Uint64()}
		case 2:
			pk = &rtcp.ReceiverReport{SSRC: 1, Reports: []rtcp.ReceptionReport{{SSRC: lssrc}}}
		case 3:
			pk = &rtcp.ExtendedReport{SenderSSRC: 2200, Reports: []rtcp.ReportBlock{&rtcp.DLRRReportBlock{Reports: []rtcp.DLRRReport{{SSRC: lssrc}}}}}
		case 4:
			pk = &rtcp.PictureLossIndication{SenderSSRC: 1, MediaSSRC: lssrc}
		default:
			pk = &rtcp.ReceiverEstimatedMaximumBitrate{SenderSSRC: 1, Bitrate: 1e6, SSRCs: []uint32{lssrc}}
		}
		raw, err := rtcp.Marshal([]rtcp.Packet{pk})
		if err != nil {
			return []byte{0x80, 200, 0, 0}
		}
		return c02Mutate(r, raw, false)
	}
}

func (c02) Run(e *Env) {
	cfg := cfgOf[RigCfg](e.Plan)
	ops := opsOf[RigOp](e.Plan)
	e.StrandedIsViolation = true
	hostile := 0
	for _, o := range ops {
		if len(o.Raw) > 0 || o.Len > 1460 {
			hostile++
		}
	}
	e.SetSample(fmt.Sprintf("kinds=%v local=%d remote=%d ops=%d hostile=%d", cfg.Kinds, len(cfg.Local), len(cfg.Remote), len(ops), hostile))
	rg := newRig(e, cfg, ops)
	if !rg.Build(nil) {
		e.Violatef("oracle", "c02:construct", "chain %v does not build: %v", cfg.Kinds, rg.BuildErr)
		return
	}
	rg.Bind()
	rg.Run()
	simrt.Sleep(time.Duration(cfg.DrainMs) * time.Millisecond)
	rg.DoClose()
	e.AtEnd(func() {
		buffering := false
		for _, k := range cfg.Kinds {
			if rigBuffering[k] {
				buffering = true
			}
		}
		for _, rd := range rg.Reads {
			e.Check()
			if len(rd.op.Raw) > 0 {
				e.Fault("corrupt")
			}
			if rd.err != nil {
				continue // rejected with an error: fine
			}
			// never report more bytes than were given
			if rd.n < 0 || rd.n > 1500 {
				e.Violatef("oracle", "c02:read-n-out-of-range", "Read returned n=%d for a 1500-byte buffer (%d bytes were delivered) through %v", rd.n, len(rd.raw), cfg.Kinds)
				continue
			}
			if rd.n > len(rd.raw) && !buffering {
				e.Violatef("oracle", "c02:read-n-exceeds-input", "Read returned n=%d although only %d bytes were delivered (chain %v)", rd.n, len(rd.raw), cfg.Kinds)
			}
			// a well-formed probe after hostile input is still handled normally
			if len(rd.op.Raw) == 0 && !buffering && rg.closeEnt == 0 {
				if rd.n != len(rd.raw) || !bytes.Equal(rd.got, rd.raw) {
					e.Violatef("oracle", "c02:probe-mishandled", "a well-formed packet after hostile input was not handed over intact (n=%d of %d)", rd.n, len(rd.raw))
				}
				e.Probe("probe_ok")
			}
		}
		for _, w := range rg.Writes {
			if len(w.payload) > 1460 {
				e.Fault("oversize_payload")
			}
		}
		_ = rtp.Header{}
	})
}
