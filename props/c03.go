package props

import (
	"errors"
	"fmt"
	"io"
	"math/rand"
	"sort"
	"time"

	"github.com/pion/interceptor"
	"github.com/pion/interceptor/pkg/nack"
	"github.com/pion/rtcp"

	"verif/simrt"
)

// C03: NACK generator requests exactly the missing packets.

type c03Cfg struct {
	Size       uint16   `json:"size"`
	SkipLastN  uint16   `json:"skip_last_n"`
	MaxNacks   uint16   `json:"max_nacks"`
	IntervalMs int      `json:"interval_ms"`
	SSRCs      []uint32 `json:"ssrcs"`
	NoNack     []bool   `json:"no_nack"` // stream did not negotiate NACK
	TailMs     int      `json:"tail_ms"`
	Rebind     []int    `json:"rebind,omitempty"` // per stream: after this many packets the stream is unbound and continues under a new SSRC (0: never); one straggler still arrives through the old reader
	WErrP      int      `json:"werr_permille,omitempty"` // the RTCP writer fails this often (after it has seen the packet)
}

type c03Op struct {
	Stream int    `json:"s"`
	AtUs   int64  `json:"at_us"`
	Seq    uint16 `json:"seq"`
	Err    bool   `json:"err,omitempty"` // inner reader fails for this packet
}

type c03 struct{}

func init() { register(c03{}) }

func (c03) ID() string { return "C03" }

func (c03) Gen(seed int64, tier string, avoid []string) *Plan {
	p, r := newPlan("C03", seed, tier, avoid)
	cfg := c03Cfg{
		Size:       pick(r, uint16(64), 64, 64, 128, 128, 256, 512, 1024, 4096, 32768),
		IntervalMs: pick(r, 5, 10, 20, 50, 100),
		TailMs:     300,
	}
	if chance(r, 400) {
		cfg.SkipLastN = uint16(pick(r, 1, 2, 3, 5, 10, 60))
	}
	if chance(r, 350) {
		cfg.MaxNacks = uint16(pick(r, 1, 2, 3, 5))
	}
	ns := pick(r, 1, 1, 2, 3)
	avoidLate := false
	for _, a := range avoid {
		if a == "c03-late-alias" {
			avoidLate = true
		}
	}
	n := pick(r, 40, 80, 150, 300)
	if tier == "thorough" {
		n = pick(r, 80, 300, 800, 2000)
	}
	var ops []c03Op
	for s := 0; s < ns; s++ {
		cfg.SSRCs = append(cfg.SSRCs, uint32(1000+s*1111))
		cfg.NoNack = append(cfg.NoNack, ns > 1 && chance(r, 200))
		// sender model
		var seq uint16
		switch r.Intn(4) {
		case 0:
			seq = uint16(65535 - r.Intn(n+1))
		case 1:
			seq = 0
		default:
			seq = uint16(r.Intn(65536))
		}
		dropP := pick(r, 0, 10, 50, 200)
		dupP := pick(r, 0, 0, 20, 100)
		reoP := pick(r, 0, 0, 50, 300)
		jumpP := pick(r, 0, 0, 5, 20)
		lateP := pick(r, 0, 0, 0, 10)
		if avoidLate {
			lateP = 0
		}
		errP := pick(r, 0, 0, 0, 20)
		spacing := int64(pick(r, 1000, 1000, 2000, 5000))
		at := int64(r.Intn(20)) * 1000
		burst := 0
		var sent []uint16
		for i := 0; i < n; i++ {
			at += spacing
			if chance(r, jumpP) {
				j := pick(r, 2, 10, int(cfg.Size)-1, int(cfg.Size), int(cfg.Size)+1, 3*int(cfg.Size), 20000, 32000)
				if j > 32000 {
					j = 32000
				}
				seq += uint16(j)
			}
			cur := seq
			seq++
			sent = append(sent, cur)
			if burst > 0 {
				burst--
				continue
			}
			if chance(r, dropP) {
				if chance(r, 200) {
					burst = r.Intn(8)
				}
				continue
			}
			t := at
			if chance(r, reoP) {
				t += int64(r.Intn(40)) * 1000
			}
			ops = append(ops, c03Op{Stream: s, AtUs: t, Seq: cur, Err: chance(r, errP)})
			if chance(r, dupP) {
				ops = append(ops, c03Op{Stream: s, AtUs: t + int64(r.Intn(30))*1000, Seq: cur})
			}
			if chance(r, lateP) && len(sent) > 2 {
				// an arbitrarily late copy of an old packet
				old := sent[r.Intn(len(sent))]
				ops = append(ops, c03Op{Stream: s, AtUs: t + 500, Seq: old})
			}
		}
	}
	sort.SliceStable(ops, func(i, j int) bool { return ops[i].AtUs < ops[j].AtUs })
	for range cfg.SSRCs {
		k := 0
		if chance(r, 150) {
			k = 2 + r.Intn(10)
		}
		cfg.Rebind = append(cfg.Rebind, k)
	}
	if chance(r, 300) {
		cfg.WErrP = pick(r, 50, 200, 500)
	}
	p.Cfg = mustJSON(cfg)
	setOps(p, ops)
	return p
}

// c03Model is the reference receiver of one stream (unbounded memory,
// unwrapped arithmetic).  Versions count accepted arrivals.
type c03Model struct {
	started bool
	end16   uint16
	hi      []int64        // hi[v]: highest unwrapped number after v arrivals (index 0 unused)
	first   int64          // unwrapped number of the first packet
	recvAt  map[int64]int  // unwrapped number -> version at which first received
	count   map[int64]int  // times requested so far (limit mode)
	count16 map[uint16]int // same, keyed by the 16-bit value (lenient side of the completeness check)
	track   verTrack
	dead    bool // the stream was unbound: what is still said about it is C11's business
	noNack  bool
	deadAt  time.Duration
	at      []time.Duration // at[v-1]: simulated instant of arrival v (same indexing as hi)
	nacks   []c03Nack       // every NACK written for the stream that matched a version
}

// c03Nack is one NACK as written: the instant and the unwrapped numbers it requested.
type c03Nack struct {
	at time.Duration
	us []int64
}

//go:norace
func (m *c03Model) add(seq uint16) {
	v := len(m.hi)
	m.at = append(m.at, simNow())
	if !m.started {
		m.started = true
		m.end16 = seq
		m.first = 1<<40 + int64(seq)
		m.hi = append(m.hi, m.first)
		m.recvAt[m.first] = v
		return
	}
	cur := m.hi[len(m.hi)-1]
	d := int64(int16(seq - m.end16))
	u := cur + d
	if d > 0 {
		m.end16 = seq
		cur = u
	}
	m.hi = append(m.hi, cur)
	if _, ok := m.recvAt[u]; !ok {
		m.recvAt[u] = v
	}
}

// missing returns the expected request set at version v (v >= 1), as 16-bit numbers -> unwrapped.
//
//go:norace
func (m *c03Model) missing(v int, size, skip uint16) map[uint16]int64 {
	out := map[uint16]int64{}
	hi := m.hi[v-1]
	lo := hi - int64(size) + 1
	if lo <= m.first {
		lo = m.first + 1
	}
	for s := lo; s <= hi-int64(skip); s++ {
		if at, ok := m.recvAt[s]; !ok || at > v-1 {
			out[uint16(s)] = s
		}
	}
	return out
}

// simNow is the simulated time since the start of the run.
//
//go:norace
func simNow() time.Duration {
	if simrt.S == nil {
		return 0
	}
	return simrt.S.Now()
}

func (c03) Run(e *Env) {
	cfg := cfgOf[c03Cfg](e.Plan)
	ops := opsOf[c03Op](e.Plan)
	e.SetSample(fmt.Sprintf("size=%d skip=%d max=%d interval=%dms streams=%d arrivals=%d", cfg.Size, cfg.SkipLastN, cfg.MaxNacks, cfg.IntervalMs, len(cfg.SSRCs), len(ops)))

	opts := []nack.GeneratorOption{
		nack.GeneratorSize(cfg.Size), nack.GeneratorSkipLastN(cfg.SkipLastN),
		nack.GeneratorInterval(time.Duration(cfg.IntervalMs) * time.Millisecond),
		nack.WithGeneratorLoggerFactory(nopLoggerFactory{}),
	}
	if cfg.MaxNacks > 0 {
		opts = append(opts, nack.GeneratorMaxNacksPerPacket(cfg.MaxNacks))
	}
	f, _ := nack.NewGeneratorInterceptor(opts...)
	ic, err := f.NewInterceptor("")
	if err != nil {
		e.Violatef("oracle", "c03:construct", "valid configuration rejected: %v", err)
		return
	}
	models := map[uint32]*c03Model{}
	byStream := make([][]c03Op, len(cfg.SSRCs))
	for _, o := range ops {
		if o.Stream < len(byStream) {
			byStream[o.Stream] = append(byStream[o.Stream], o)
		}
	}
	// lower bound of the version window: outer-completed counts when the
	// writing goroutine last woke from a native wait.
	wake := map[int]map[uint32]int{}
	e.S.OnRelease = func(g *simrt.G, woke bool) {
		if woke && !g.App {
			snap := map[uint32]int{}
			for ssrc, m := range models {
				snap[ssrc] = m.track.outer
			}
			wake[g.ID] = snap
		}
	}
	for i, ssrc := range cfg.SSRCs {
		models[ssrc] = &c03Model{recvAt: map[int64]int{}, count: map[int64]int{}, count16: map[uint16]int{}, noNack: cfg.NoNack[i]}
	}
	var all []*c03Model // every model of the run, in creation order (the audit walks them)
	for _, ssrc := range cfg.SSRCs {
		all = append(all, models[ssrc])
	}

	werr := rand.New(rand.NewSource(e.Plan.Seed ^ 0x6e61636b))
	loopStart := simNow()
	ic.BindRTCPWriter(interceptor.RTCPWriterFunc(func(pkts []rtcp.Packet, _ interceptor.Attributes) (int, error) {
		c03Check(e, cfg, models, wake, pkts)
		if cfg.WErrP > 0 && werr.Intn(1000) < cfg.WErrP {
			// the transport refuses the packet: the NACKs of the other streams of this tick are still due
			e.Fault("rtcp_writer_err")
			return 0, errInjected
		}
		return 0, nil
	}))

	var readers []*simrt.G
	for i, ssrc := range cfg.SSRCs {
		fb := []string{"nack"}
		if cfg.NoNack[i] {
			fb = nil
		}
		info := streamInfo(ssrc, 96, 90000, fb...)
		m := models[ssrc]
		sops := byStream[i]
		idx := 0
		var lastErr bool
		var straggler []byte
		inner := interceptor.RTPReaderFunc(func(b []byte, a interceptor.Attributes) (int, interceptor.Attributes, error) {
			if straggler != nil {
				n := copy(b, straggler)
				straggler = nil
				return n, a, nil
			}
			o := sops[idx]
			idx++
			simrt.SleepUntil(us(o.AtUs))
			if o.Err {
				lastErr = true
				e.Fault("reader_err")
				if o.Seq&1 == 0 {
					// the io.Reader flavour: the bytes are there and a length comes with the error; only
					// successfully read packets are recorded
					e.Fault("reader_err_with_length")
					return copy(b, rtpBytes(ssrc, 96, o.Seq, uint32(o.Seq)*3000, 4)), a, errInjected
				}
				return 0, nil, errInjected
			}
			lastErr = false
			pkt := rtpBytes(ssrc, 96, o.Seq, uint32(o.Seq)*3000, 4)
			n := copy(b, pkt)
			c03Arrive(m, o.Seq)
			return n, a, nil
		})
		rd := ic.BindRemoteStream(info, inner)
		rebindAt := 0
		if i < len(cfg.Rebind) {
			rebindAt = cfg.Rebind[i]
		}
		readers = append(readers, e.Go(fmt.Sprintf("reader%d", i), func() {
			buf := make([]byte, 1500)
			for idx < len(sops) {
				if rebindAt > 0 && idx == rebindAt {
					// the stream ends and continues under a new SSRC; the old reader is still drained once
					rebindAt = 0
					e.Fault("unbind_rebind_with_straggler")
					old := rd
					c03Dead(m)
					ic.UnbindRemoteStream(info)
					ssrc += 50000
					m = &c03Model{recvAt: map[int64]int{}, count: map[int64]int{}, count16: map[uint16]int{}, noNack: cfg.NoNack[i]}
					c03AddModel(models, ssrc, m)
					all = append(all, m)
					info = streamInfo(ssrc, 96, 90000, fb...)
					rd = ic.BindRemoteStream(info, inner)
					if _, _, err := rd.Read(buf, interceptor.Attributes{}); err == nil || errors.Is(err, errInjected) {
						if !lastErr {
							c03Returned(m)
						}
					}
					straggler = rtpBytes(ssrc-50000, 96, sops[idx-1].Seq+uint16(cfg.Size)/2+700, 1, 4)
					old.Read(buf, interceptor.Attributes{})
					continue
				}
				_, _, err := rd.Read(buf, interceptor.Attributes{})
				if err != nil && !errors.Is(err, errInjected) {
					e.Violatef("oracle", "c03:read-error", "unexpected read error: %v", err)
				}
				if !lastErr {
					c03Returned(m)
				}
			}
		}))
	}
	e.Wait(readers...)
	simrt.Sleep(time.Duration(cfg.TailMs) * time.Millisecond)
	closeAt := simNow()
	ic.Close()
	c03AuditTicks(e, cfg, all, loopStart, closeAt)
}

// c03AuditTicks is the completeness half of "at every reporting tick and for
// every bound stream": the generator's loop starts with BindRTCPWriter and
// ticks every configured interval of simulated time (nothing in this scenario
// stalls it), so at every tick instant at which every version the tick can have
// seen has a non-empty request set, a NACK for that stream must have been
// written at that very instant - whatever happened to the NACKs of the other
// streams in the same tick.  Versions: arrivals strictly before the instant
// have been logged, arrivals at the instant may or may not have been.
//
//go:norace
func c03AuditTicks(e *Env, cfg c03Cfg, all []*c03Model, loopStart, closeAt time.Duration) {
	interval := time.Duration(cfg.IntervalMs) * time.Millisecond
	ticks := int((closeAt - loopStart) / interval)
	if ticks <= 0 {
		return
	}
	// bounded work: a tick costs up to one window scan per stream and version
	stride := 1 + ticks*int(cfg.Size)*len(all)/400000
	phase := int(uint64(e.Plan.Seed) % uint64(stride))
	for _, m := range all {
		if m.noNack || len(m.hi) == 0 {
			continue
		}
		vlo, vhi := 0, 0 // arrivals strictly before / up to the tick
		cnt := map[int64]int{}
		cnt16 := map[uint16]int{}
		ni := 0
		for k := 1; k <= ticks; k++ {
			T := loopStart + time.Duration(k)*interval
			if T >= closeAt || (m.dead && T >= m.deadAt) {
				break
			}
			for vlo < len(m.at) && m.at[vlo] < T {
				vlo++
			}
			for vhi < len(m.at) && m.at[vhi] <= T {
				vhi++
			}
			// requests made before this tick
			for ni < len(m.nacks) && m.nacks[ni].at < T {
				for _, u := range m.nacks[ni].us {
					cnt[u]++
					cnt16[uint16(u)]++
				}
				ni++
			}
			if vlo < 1 || k%stride != phase {
				continue
			}
			written := false
			for j := ni; j < len(m.nacks) && m.nacks[j].at == T; j++ {
				written = true
			}
			if written {
				continue
			}
			due := true
			var example int64
			for v := vlo; v <= vhi && due; v++ {
				u, ok := m.firstDue(v, cfg.Size, cfg.SkipLastN, int(cfg.MaxNacks), cnt, cnt16)
				if !ok {
					due = false
				}
				example = u
			}
			e.Check()
			if due {
				e.Probe("tick_audited_due")
				e.Violatef("oracle", "c03:tick-without-nack", "tick at %v (interval %v): seq %d has been missing in every version [%d..%d] the tick can have seen and is below the NACK limit, but no NACK for the stream was written at that instant", T, interval, uint16(example), vlo, vhi)
				return
			}
		}
	}
}

// firstDue returns a number that must be requested at version v: missing, and
// (in limit mode) requested fewer times than the limit so far - by either way
// of counting, see c03Compare.
//
//go:norace
func (m *c03Model) firstDue(v int, size, skip uint16, limit int, cnt map[int64]int, cnt16 map[uint16]int) (int64, bool) {
	hi := m.hi[v-1]
	lo := hi - int64(size) + 1
	if lo <= m.first {
		lo = m.first + 1
	}
	for s := lo; s <= hi-int64(skip); s++ {
		if at, ok := m.recvAt[s]; !ok || at > v-1 {
			if limit > 0 && (cnt[s] >= limit || cnt16[uint16(s)] >= limit) {
				continue
			}
			return s, true
		}
	}
	return 0, false
}

var errInjected = errors.New("injected fault")

// errInjectedClosed is the same fault as reported by a transport that has gone away.
var errInjectedClosed = fmt.Errorf("%w: %w", errInjected, io.ErrClosedPipe)

//go:norace
func c03Arrive(m *c03Model, seq uint16) { m.add(seq); m.track.inner++ }

//go:norace
func c03Returned(m *c03Model) { m.track.outer++ }

//go:norace
func c03Dead(m *c03Model) { m.dead = true; m.deadAt = simNow() }

//go:norace
func c03AddModel(models map[uint32]*c03Model, ssrc uint32, m *c03Model) { models[ssrc] = m }

//go:norace
func c03Check(e *Env, cfg c03Cfg, models map[uint32]*c03Model, wake map[int]map[uint32]int, pkts []rtcp.Packet) {
	g := simrt.Cur()
	for _, pkt := range pkts {
		n, ok := pkt.(*rtcp.TransportLayerNack)
		if !ok {
			e.Violatef("oracle", "c03:foreign-rtcp", "generator wrote %T", pkt)
			continue
		}
		m := models[n.MediaSSRC]
		if m == nil {
			e.Violatef("oracle", "c03:unknown-ssrc", "NACK for unknown SSRC %d", n.MediaSSRC)
			continue
		}
		if m.dead {
			continue
		}
		for i, s := range cfg.SSRCs {
			if (s == n.MediaSSRC || s+50000 == n.MediaSSRC) && cfg.NoNack[i] {
				e.Violatef("oracle", "c03:nack-not-negotiated", "NACK for stream %d which did not negotiate NACK", s)
			}
		}
		// independent expansion of the pairs
		req := map[uint16]int{}
		for _, p := range n.Nacks {
			req[p.PacketID]++
			for b := 0; b < 16; b++ {
				if p.LostPackets&(1<<b) != 0 {
					req[p.PacketID+uint16(b)+1]++
				}
			}
		}
		for s, c := range req {
			if c > 1 {
				e.Violatef("oracle", "c03:dup-in-packet", "seq %d listed %d times in one NACK", s, c)
			}
		}
		hi := m.track.inner
		lo := hi
		if g != nil {
			if snap, ok := wake[g.ID]; ok {
				lo = snap[n.MediaSSRC]
			} else {
				lo = 0
			}
		}
		if lo < 1 {
			lo = 1
		}
		if hi < 1 {
			e.Violatef("oracle", "c03:nack-before-any-packet", "NACK %v for SSRC %d before any packet", keys16(req), n.MediaSSRC)
			continue
		}
		e.Check()
		if hi > lo {
			e.Probe("version_window>1")
		}
		matched := false
		var firstDiff string
		for v := hi; v >= lo; v-- {
			exp := m.missing(v, cfg.Size, cfg.SkipLastN)
			if d := c03Compare(cfg, m, exp, req); d == "" {
				matched = true
				if len(exp) > 0 && cfg.MaxNacks > 0 {
					e.Probe("limit_mode_checked")
				}
				// commit counts
				nk := c03Nack{at: simNow()}
				for s := range req {
					m.count[exp[s]]++
					m.count16[s]++
					nk.us = append(nk.us, exp[s])
				}
				m.nacks = append(m.nacks, nk)
				break
			} else if firstDiff == "" {
				firstDiff = d
			}
		}
		if m.hi[hi-1]-m.first >= 65536 {
			e.Probe("wrap_crossed")
		}
		if !matched {
			sig := "c03:request-set-mismatch"
			e.Violatef("oracle", sig, "SSRC %d versions[%d..%d]: %s; requested=%v", n.MediaSSRC, lo, hi, firstDiff, keys16(req))
		}
	}
}

//go:norace
func c03Compare(cfg c03Cfg, m *c03Model, exp map[uint16]int64, req map[uint16]int) string {
	for s := range req {
		u, ok := exp[s]
		if !ok {
			return fmt.Sprintf("seq %d requested but not in the expected missing set (size %d)", s, len(exp))
		}
		if cfg.MaxNacks > 0 && m.count[u] >= int(cfg.MaxNacks) {
			return fmt.Sprintf("seq %d requested more than the limit %d", s, cfg.MaxNacks)
		}
	}
	for s, u := range exp {
		if _, ok := req[s]; !ok {
			if cfg.MaxNacks > 0 && (m.count[u] >= int(cfg.MaxNacks) || m.count16[s] >= int(cfg.MaxNacks)) {
				// at the limit (a 16-bit value that was already requested `limit` times in an
				// earlier cycle may or may not be requested again: the statement is silent)
				continue
			}
			return fmt.Sprintf("seq %d missing (in window, after first, not received) but not requested", s)
		}
	}
	return ""
}

func keys16(m map[uint16]int) []int {
	var out []int
	for k := range m {
		out = append(out, int(k))
	}
	sort.Ints(out)
	if len(out) > 40 {
		out = append(out[:40], -1)
	}
	return out
}
