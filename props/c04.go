package props

import (
	"bytes"
	"encoding/binary"
	"fmt"
	"sort"
	"time"

	"github.com/pion/interceptor"
	"github.com/pion/interceptor/pkg/nack"
	"github.com/pion/rtcp"
	"github.com/pion/rtp"

	"verif/simrt"
)

// C04: NACK responder retransmits exactly what was sent.

type c04Cfg struct {
	Size        uint16 `json:"size"`
	RTX         bool   `json:"rtx"`
	DisableCopy bool   `json:"disable_copy"`
	Streams     int    `json:"streams"`
	NoNack      []bool `json:"no_nack"`
	Readers     int    `json:"readers"`
	RetxStallUs int64  `json:"retx_stall_us"` // downstream stalls this long on every 2nd retransmission
	AppStallUs  int64  `json:"app_stall_us"`  // downstream takes this long to return after it has put an application packet on the wire
}

type c04Op struct {
	K     string      `json:"k"` // w, n, unbind, close
	S     int         `json:"s,omitempty"`
	R     int         `json:"r,omitempty"`
	AtUs  int64       `json:"at_us"`
	Seq   uint16      `json:"seq,omitempty"`
	HS    int64       `json:"hs,omitempty"`
	Len   int         `json:"len,omitempty"`
	Pad   int         `json:"pad,omitempty"` // 0 none, 1 PaddingSize>0, 2 padding inside the payload
	SSRC  uint32      `json:"ssrc,omitempty"`
	Pairs [][2]uint16 `json:"pairs,omitempty"` // (PacketID, bitmask)
}

type c04 struct{}

func init() { register(c04{}) }

func (c04) ID() string { return "C04" }

func (c04) Gen(seed int64, tier string, avoid []string) *Plan {
	p, r := newPlan("C04", seed, tier, avoid)
	avoidSet := map[string]bool{}
	for _, a := range avoid {
		avoidSet[a] = true
	}
	cfg := c04Cfg{
		Size:    uint16(pick(r, 1, 2, 4, 8, 8, 16, 64, 1024, 32768)),
		RTX:     chance(r, 450),
		Streams: pick(r, 1, 1, 2, 3),
		Readers: pick(r, 1, 1, 2),
	}
	if chance(r, 100) {
		cfg.DisableCopy = true
		if avoidSet["c04-disable-copy-rtx"] {
			cfg.RTX = false
		}
	}
	if chance(r, 400) {
		cfg.RetxStallUs = int64(pick(r, 50, 500, 3000))
	}
	if chance(r, 300) {
		cfg.AppStallUs = int64(pick(r, 200, 3000)) // fast feedback: a NACK can arrive before Write has returned
	}
	p.PoolDrop = pick(r, 0, 0, 100, 500)
	n := pick(r, 10, 30, 80, 200)
	if tier == "thorough" {
		n = pick(r, 30, 200, 800)
	}
	var ops []c04Op
	var end int64
	for s := 0; s < cfg.Streams; s++ {
		cfg.NoNack = append(cfg.NoNack, cfg.Streams > 1 && chance(r, 150))
		var seq uint16
		if r.Intn(3) == 0 {
			seq = uint16(65535 - r.Intn(n+1))
		} else {
			seq = uint16(r.Intn(65536))
		}
		at := int64(r.Intn(3000))
		lateP := pick(r, 0, 0, 30, 150)
		if avoidSet["c04-late-send"] {
			lateP = 0
		}
		dupP := pick(r, 0, 0, 30, 150)
		var sent []uint16
		var held []c04Op
		for i := 0; i < n; i++ {
			at += int64(pick(r, 100, 500, 1000, 3000))
			o := c04Op{K: "w", S: s, AtUs: at, Seq: seq, HS: r.Int63(), Len: pick(r, 0, 1, 7, 100, 1000, 1458, 1459, 1460), Pad: pick(r, 0, 0, 0, 1, 2)}
			if o.Pad == 2 && o.Len == 0 {
				o.Pad = 0
			}
			if avoidSet["c04-rtx-1460"] && cfg.RTX && o.Len > 1458 {
				o.Len = 1458
			}
			seq++
			if chance(r, 30) {
				gap := pick(r, 1, 2, int(cfg.Size), 2*int(cfg.Size)+1)
				if gap > 30000 {
					gap = 30000 // beyond half the number space "newer" and "older" are indistinguishable
				}
				seq += uint16(gap)
			}
			if chance(r, lateP) {
				held = append(held, o) // sent late / out of order
				continue
			}
			ops = append(ops, o)
			sent = append(sent, o.Seq)
			if chance(r, dupP) {
				// the application sends the very same packet again (nothing newer in between)
				d := o
				d.AtUs = at + 5
				ops = append(ops, d)
			}
			if len(held) > 0 && chance(r, 400) {
				h := held[0]
				held = held[1:]
				h.AtUs = at + 10
				ops = append(ops, h)
				sent = append(sent, h.Seq)
			}
			// NACKs about this stream
			if chance(r, 250) && len(sent) > 0 {
				var pairs [][2]uint16
				for k := 1 + r.Intn(3); k > 0; k-- {
					base := sent[len(sent)-1-r.Intn(min(len(sent), 1+2*int(min(cfg.Size, 64))))]
					switch r.Intn(6) {
					case 0:
						base = seq + uint16(r.Intn(5)) // never sent (ahead)
					case 1:
						base -= uint16(cfg.Size) // just outside the window
					}
					mask := uint16(0)
					if chance(r, 400) {
						mask = uint16(r.Intn(65536))
					}
					pairs = append(pairs, [2]uint16{base, mask})
					if chance(r, 200) {
						pairs = append(pairs, [2]uint16{base, 0}) // repeated number
					}
				}
				ssrc := uint32(4000 + s)
				if chance(r, 80) {
					ssrc = 99999 // unbound stream
				}
				ops = append(ops, c04Op{K: "n", R: r.Intn(cfg.Readers), AtUs: at + int64(r.Intn(2000)), SSRC: ssrc, Pairs: pairs})
			}
		}
		for _, h := range held {
			at += 50
			h.AtUs = at
			ops = append(ops, h)
		}
		if chance(r, 150) {
			ops = append(ops, c04Op{K: "unbind", S: s, AtUs: r.Int63n(at + 1)})
		}
		if at > end {
			end = at
		}
	}
	if chance(r, 100) {
		ops = append(ops, c04Op{K: "close", AtUs: r.Int63n(end + 1)})
	}
	sort.SliceStable(ops, func(i, j int) bool { return ops[i].AtUs < ops[j].AtUs })
	p.Cfg = mustJSON(cfg)
	setOps(p, ops)
	return p
}

type c04Sent struct {
	seq        uint16
	u          int64 // unwrapped (half-range rule, in send order)
	hdr        rtp.Header
	payload    []byte
	pad        int
	enter, ret int // step numbers
	wire       int // step at which the next writer had the packet (it is on the wire from then on)
	failed     bool
}

type c04Retx struct {
	gid     int
	step    int
	hdr     rtp.Header
	payload []byte
}

type c04Nack struct {
	ssrc   uint32
	reqs   map[uint16]int // requested number -> multiplicity
	step   int            // inner read returned
	parent int            // reader goroutine id
	firstG int            // goroutines created after this index may belong to the NACK
	gid    int            // resend goroutine (resolved at the end)
}

type c04Stream struct {
	ssrc        uint32
	hiU         int64
	noNack      bool
	sent        []*c04Sent
	unbindEnter int
	unbindRet   int
}

func (c04) Run(e *Env) {
	cfg := cfgOf[c04Cfg](e.Plan)
	ops := opsOf[c04Op](e.Plan)
	e.SetSample(fmt.Sprintf("size=%d rtx=%v disable_copy=%v streams=%d readers=%d pool_drop=%d retx_stall=%dus ops=%d", cfg.Size, cfg.RTX, cfg.DisableCopy, cfg.Streams, cfg.Readers, e.Plan.PoolDrop, cfg.RetxStallUs, len(ops)))
	opts := []nack.ResponderOption{nack.ResponderSize(cfg.Size), nack.WithResponderLoggerFactory(nopLoggerFactory{})}
	if cfg.DisableCopy {
		opts = append(opts, nack.DisableCopy())
	}
	f, _ := nack.NewResponderInterceptor(opts...)
	ic, err := f.NewInterceptor("")
	if err != nil {
		e.Violatef("oracle", "c04:construct", "valid size %d rejected: %v", cfg.Size, err)
		return
	}
	const rtxPT = 97
	streams := make([]*c04Stream, cfg.Streams)
	writers := make([]interceptor.RTPWriter, cfg.Streams)
	infos := make([]*interceptor.StreamInfo, cfg.Streams)
	var retx []*c04Retx
	nRetx := 0
	for s := range streams {
		st := &c04Stream{ssrc: uint32(4000 + s), noNack: cfg.NoNack[s], unbindEnter: 1 << 60, unbindRet: 1 << 60}
		streams[s] = st
		fb := []string{"nack"}
		if st.noNack {
			fb = nil
		}
		info := streamInfo(st.ssrc, 96, 90000, fb...)
		if cfg.RTX {
			info.SSRCRetransmission = st.ssrc + 500
			info.PayloadTypeRetransmission = rtxPT
		}
		infos[s] = info
		writers[s] = ic.BindLocalStream(info, interceptor.RTPWriterFunc(func(h *rtp.Header, pl []byte, a interceptor.Attributes) (int, error) {
			g := simrt.Cur()
			if g != nil && !g.App {
				// issued by a library goroutine: a retransmission
				if cfg.RetxStallUs > 0 && c04Count(&nRetx)%2 == 0 {
					e.Fault("stall_writer")
					simrt.Sleep(us(cfg.RetxStallUs))
				} else {
					simrt.Yield("downstream")
				}
				rec := &c04Retx{gid: g.ID, hdr: h.Clone(), payload: append([]byte{}, pl...)}
				c04LogRetx(e, &retx, rec)
			} else if rec, ok := a.Get("rec").(*c04Sent); ok {
				// an application packet: it is on the wire now; the transport may take a while to return
				c04Wire(e, rec)
				if cfg.AppStallUs > 0 {
					e.Fault("stall_writer_after_send")
					simrt.Sleep(us(cfg.AppStallUs))
				}
			}
			return len(pl), nil
		}))
	}
	var nacks []*c04Nack
	var gs []*simrt.G
	// writers
	for s, st := range streams {
		var sops []c04Op
		for _, o := range ops {
			if o.K == "w" && o.S == s {
				sops = append(sops, o)
			}
		}
		gs = append(gs, e.Go(fmt.Sprintf("writer%d", s), func() {
			h := &rtp.Header{}
			var plBuf []byte
			for _, o := range sops {
				simrt.SleepUntil(us(o.AtUs))
				if cfg.DisableCopy {
					h = &rtp.Header{} // the documented exception: the caller must not reuse what it passed
				}
				*h = hdrFromSeed(o.HS, st.ssrc, 96, o.Seq, uint32(o.Seq)*90, 0).Clone()
				pl := payloadFromSeed(o.HS, o.Len)
				switch o.Pad {
				case 1:
					h.Padding, h.PaddingSize = true, uint8(1+o.HS%20)
				case 2:
					h.Padding = true
					pl[len(pl)-1] = byte(1 + int(o.HS%int64(len(pl))))
				}
				if !cfg.DisableCopy {
					plBuf = append(plBuf[:0], pl...) // the caller's reused buffer
				} else {
					plBuf = pl
				}
				rec := &c04Sent{seq: o.Seq, hdr: h.Clone(), payload: append([]byte{}, pl...), pad: o.Pad}
				c04LogSend(e, st, rec)
				_, err := writers[s].Write(h, plBuf, interceptor.Attributes{"rec": rec})
				c04SendDone(e, rec, err != nil)
				if err != nil {
					e.Violatef("oracle", "c04:write-error", "Write of seq %d (%d bytes, pad form %d) failed: %v", o.Seq, o.Len, o.Pad, err)
				}
				if !cfg.DisableCopy {
					// scribble everything the caller owns as soon as Write returned
					for i := range plBuf {
						plBuf[i] ^= 0xA5
					}
					h.Timestamp ^= 0xFFFF
					h.Marker = !h.Marker
					for i := range h.CSRC {
						h.CSRC[i] = 0xDEADBEEF
					}
					for _, id := range h.GetExtensionIDs() {
						b := h.GetExtension(id)
						for i := range b {
							b[i] ^= 0x5A
						}
					}
				}
			}
		}))
	}
	// RTCP readers
	for rd := 0; rd < cfg.Readers; rd++ {
		var rops []c04Op
		for _, o := range ops {
			if o.K == "n" && o.R == rd {
				rops = append(rops, o)
			}
		}
		idx := 0
		var curNack *c04Nack
		reader := ic.BindRTCPReader(interceptor.RTCPReaderFunc(func(b []byte, a interceptor.Attributes) (int, interceptor.Attributes, error) {
			o := rops[idx]
			idx++
			simrt.SleepUntil(us(o.AtUs))
			n := &rtcp.TransportLayerNack{SenderSSRC: 1, MediaSSRC: o.SSRC}
			reqs := map[uint16]int{}
			for _, pr := range o.Pairs {
				n.Nacks = append(n.Nacks, rtcp.NackPair{PacketID: pr[0], LostPackets: rtcp.PacketBitmap(pr[1])})
				reqs[pr[0]]++
				for bit := 0; bit < 16; bit++ {
					if pr[1]&(1<<bit) != 0 {
						reqs[pr[0]+uint16(bit)+1]++
					}
				}
			}
			raw, err := rtcp.Marshal([]rtcp.Packet{n})
			if err != nil {
				panic(err)
			}
			curNack = &c04Nack{ssrc: o.SSRC, reqs: reqs, parent: simrt.Cur().ID}
			c04LogNack(e, &nacks, curNack)
			return copy(b, raw), a, nil
		}))
		gs = append(gs, e.Go(fmt.Sprintf("rtcp-reader%d", rd), func() {
			buf := make([]byte, 1500)
			for idx < len(rops) {
				if _, _, err := reader.Read(buf, interceptor.Attributes{}); err != nil {
					e.Violatef("oracle", "c04:rtcp-read-error", "%v", err)
				}
			}
		}))
	}
	// lifecycle
	gs = append(gs, e.Go("lifecycle", func() {
		for _, o := range ops {
			switch o.K {
			case "unbind":
				if o.S < len(streams) {
					simrt.SleepUntil(us(o.AtUs))
					e.Fault("unbind_at")
					c04Unbind(e, streams[o.S], true)
					ic.UnbindLocalStream(infos[o.S])
					c04Unbind(e, streams[o.S], false)
				}
			case "close":
				simrt.SleepUntil(us(o.AtUs))
				e.Fault("close_at")
				for _, st := range streams {
					c04Unbind(e, st, true)
				}
				ic.Close()
				for _, st := range streams {
					c04Unbind(e, st, false)
				}
			}
		}
	}))
	e.Wait(gs...)
	// let the resend goroutines finish (bounded liveness: they only write downstream)
	simrt.Sleep(50*time.Millisecond + 40*us(cfg.RetxStallUs))
	_, lib := e.S.Live()
	if len(lib) > 0 {
		e.Violatef("oracle", "c04:resend-never-finished", "resend goroutines still alive long after the last NACK: %v", e.S.Describe())
		return
	}
	ic.Close()
	c04Oracle(e, cfg, streams, nacks, retx)
}

//go:norace
func c04Count(n *int) int { *n++; return *n }

//go:norace
func c04LogRetx(e *Env, retx *[]*c04Retx, r *c04Retx) {
	r.step = e.S.Step()
	*retx = append(*retx, r)
}

//go:norace
func c04LogSend(e *Env, st *c04Stream, r *c04Sent) {
	r.enter, r.ret, r.wire = e.S.Step(), 1<<60, 1<<60
	if len(st.sent) == 0 {
		r.u = 1<<32 + int64(r.seq)
		st.hiU = r.u
	} else {
		r.u = st.hiU + int64(int16(r.seq-uint16(st.hiU)))
		if r.u > st.hiU {
			st.hiU = r.u
		}
	}
	st.sent = append(st.sent, r)
}

//go:norace
func c04SendDone(e *Env, r *c04Sent, failed bool) { r.ret, r.failed = e.S.Step(), failed }

//go:norace
func c04Wire(e *Env, r *c04Sent) { r.wire = e.S.Step() }

//go:norace
func c04LogNack(e *Env, nacks *[]*c04Nack, n *c04Nack) {
	n.step = e.S.Step()
	n.firstG = len(e.S.Gs())
	*nacks = append(*nacks, n)
}

//go:norace
func c04Unbind(e *Env, st *c04Stream, enter bool) {
	if enter {
		if st.unbindEnter == 1<<60 {
			st.unbindEnter = e.S.Step()
		}
	} else if st.unbindRet == 1<<60 {
		st.unbindRet = e.S.Step()
	}
}

// c04Oracle evaluates the recorded history after the run.
func c04Oracle(e *Env, cfg c04Cfg, streams []*c04Stream, nacks []*c04Nack, retx []*c04Retx) {
	bySSRC := map[uint32]*c04Stream{}
	for _, st := range streams {
		bySSRC[st.ssrc] = st
	}
	// resolve NACK -> resend goroutine: library goroutines spawned by the reader goroutine, in order
	all := e.S.Gs()
	used := map[int]bool{}
	for _, n := range nacks {
		for i := n.firstG; i < len(all); i++ {
			g := all[i]
			if !g.App && g.Parent == n.parent && !used[g.ID] {
				n.gid = g.ID
				used[g.ID] = true
				break
			}
		}
	}
	endStep := map[int]int{}
	for _, g := range all {
		endStep[g.ID] = g.EndStep
	}
	retxBy := map[int][]*c04Retx{}
	for _, r := range retx {
		retxBy[r.gid] = append(retxBy[r.gid], r)
		if !used[r.gid] {
			e.Violatef("oracle", "c04:unsolicited-retransmission", "a library goroutine wrote seq %d downstream without a NACK", r.hdr.SequenceNumber)
		}
	}
	for _, n := range nacks {
		e.Check()
		st := bySSRC[n.ssrc]
		rs := retxBy[n.gid]
		if st == nil || st.noNack {
			if len(rs) > 0 {
				e.Violatef("oracle", "c04:retransmission-for-unbound-stream", "NACK for SSRC %d (not a bound NACK stream) produced %d retransmissions", n.ssrc, len(rs))
			}
			e.Probe("nack_for_unbound")
			continue
		}
		t0, t1 := n.step, endStep[n.gid]
		if n.gid == 0 {
			t1 = t0
		}
		// count retransmissions per original number, verifying their content
		got := map[uint16]int{}
		for _, r := range rs {
			osn, ok := c04Match(e, cfg, st, r, t1)
			if ok {
				got[osn]++
			}
		}
		for seq, mult := range n.reqs {
			must, mustNot := c04Status(cfg, st, seq, t0, t1)
			c := got[seq]
			switch {
			case must && c != mult:
				e.Violatef("oracle", "c04:retransmission-count", "seq %d requested %d time(s) in a NACK while it was retransmittable (sent, bound, within the %d newest) for the whole handling of the NACK, but %d retransmission(s) were written", seq, mult, cfg.Size, c)
			case mustNot && c != 0:
				e.Violatef("oracle", "c04:retransmission-of-unavailable", "seq %d was never retransmittable while the NACK was handled (never sent, outside the %d newest, or stream unbound) but %d retransmission(s) were written", seq, cfg.Size, c)
			case c > mult:
				e.Violatef("oracle", "c04:retransmission-count", "seq %d requested %d time(s) but %d retransmissions were written", seq, mult, c)
			}
			if must {
				e.Probe("must_retransmit")
			} else if !mustNot {
				e.Probe("in_flight_window")
			}
		}
		for seq, c := range got {
			if n.reqs[seq] == 0 {
				e.Violatef("oracle", "c04:retransmission-not-requested", "seq %d retransmitted %d time(s) but the NACK did not name it", seq, c)
			}
		}
	}
}

// c04Status: must = retransmittable during the whole interval [t0,t1]; mustNot = never retransmittable in it.
// Sequence numbers are compared in unwrapped form (half-range rule over the send order).
func c04Status(cfg c04Cfg, st *c04Stream, seq uint16, t0, t1 int) (must, mustNot bool) {
	highest := func(limit int, entered bool) (int64, bool) {
		var hi int64
		have := false
		for _, s := range st.sent {
			if (entered && s.enter <= limit) || (!entered && s.ret < limit) {
				if !have || s.u > hi {
					hi, have = s.u, true
				}
			}
		}
		return hi, have
	}
	resolve := func(hi int64) int64 { return hi - int64(uint16(hi)-seq) } // the number <= hi congruent to seq
	// --- must: worst case (every send that has been entered by t1 already moved the window)
	if hiW, ok := highest(t1, true); ok {
		u := resolve(hiW)
		if hiW-u < int64(cfg.Size) {
			n, done := 0, false
			for _, s := range st.sent {
				if s.u == u && !s.failed {
					n++
					if s.wire < t0 {
						done = true // on the wire before the NACK was read (the peer can only ask for what it could miss)
					}
				}
			}
			// the resolution must be the same number for every highest the library may have seen
			hiB, okB := highest(t0, false)
			stable := okB && resolve(hiB) == u
			must = n == 1 && done && stable && st.unbindEnter > t1
		}
	}
	// --- mustNot: best case
	hiB, okB := highest(t0, false)
	hiW, okW := highest(t1, true)
	switch {
	case !okW:
		mustNot = true
	case st.unbindRet < t0:
		mustNot = true
	default:
		// any number congruent to seq that was (being) sent by t1 and could be within the window of some
		// highest between the best and the worst case keeps it possible
		possible := false
		for _, s := range st.sent {
			if s.seq != seq || s.failed || s.enter > t1 {
				continue
			}
			lo := hiW
			if okB && hiB < lo {
				lo = hiB
			}
			if !okB {
				lo = s.u
			}
			if s.u > lo-int64(cfg.Size) {
				possible = true
			}
		}
		mustNot = !possible
	}
	return must, mustNot
}

// c04Match checks a retransmission byte for byte against the original and returns the original number.
func c04Match(e *Env, cfg c04Cfg, st *c04Stream, r *c04Retx, t1 int) (uint16, bool) {
	osn := r.hdr.SequenceNumber
	pl := r.payload
	if cfg.RTX {
		if r.hdr.SSRC != st.ssrc+500 || r.hdr.PayloadType != 97 {
			k := "c04:rtx-form"
			if cfg.DisableCopy {
				k = "c04:rtx-form:disable-copy"
			}
			e.Violatef("oracle", k, "retransmission with RTX negotiated carries SSRC %d PT %d (want %d / 97)", r.hdr.SSRC, r.hdr.PayloadType, st.ssrc+500)
			return r.hdr.SequenceNumber, r.hdr.SSRC == st.ssrc
		}
		if len(pl) < 2 {
			e.Violatef("oracle", "c04:rtx-form", "RTX payload of %d bytes has no room for the original sequence number", len(pl))
			return 0, false
		}
		osn = binary.BigEndian.Uint16(pl)
		pl = pl[2:]
	} else if r.hdr.SSRC != st.ssrc {
		e.Violatef("oracle", "c04:wrong-ssrc", "retransmission carries SSRC %d, stream is %d", r.hdr.SSRC, st.ssrc)
		return 0, false
	}
	var orig *c04Sent
	for _, s := range st.sent {
		if s.seq == osn && s.enter <= t1 {
			orig = s // the most recent send of that number
		}
	}
	if orig == nil {
		e.Violatef("oracle", "c04:retransmission-of-never-sent", "retransmission names seq %d which was never sent on SSRC %d", osn, st.ssrc)
		return osn, false
	}
	want := orig.hdr.Clone()
	wantPl := orig.payload
	if cfg.RTX {
		want.SSRC, want.PayloadType, want.SequenceNumber = r.hdr.SSRC, r.hdr.PayloadType, r.hdr.SequenceNumber
		if want.Padding {
			if orig.pad == 2 {
				wantPl = wantPl[:len(wantPl)-int(wantPl[len(wantPl)-1])]
			}
			want.Padding, want.PaddingSize = false, 0
		}
		if r.hdr.Padding || r.hdr.PaddingSize != 0 {
			e.Violatef("oracle", "c04:rtx-form", "RTX retransmission of seq %d keeps the padding flag", osn)
		}
	}
	if d := hdrDiff(&want, &r.hdr, 0); d != "" || want.PaddingSize != r.hdr.PaddingSize || want.Extension != r.hdr.Extension || want.ExtensionProfile != r.hdr.ExtensionProfile {
		e.Violatef("oracle", "c04:retransmitted-header-differs", "retransmission of seq %d: header differs from the packet as sent: %s (padding size %d vs %d)", osn, d, want.PaddingSize, r.hdr.PaddingSize)
		return osn, true
	}
	if !bytes.Equal(wantPl, pl) {
		k := "c04:retransmitted-payload-differs"
		if len(wantPl) != len(pl) {
			k = "c04:retransmitted-payload-length"
		}
		if cfg.RTX && len(orig.payload) > 1458 {
			k = "c04:rtx-truncates-payload>1458"
		}
		e.Violatef("oracle", k, "retransmission of seq %d: payload (%d bytes) differs from the original (%d bytes, first difference at %d)", osn, len(pl), len(wantPl), firstDiff(wantPl, pl))
		return osn, true
	}
	return osn, true
}

func firstDiff(a, b []byte) int {
	for i := 0; i < len(a) && i < len(b); i++ {
		if a[i] != b[i] {
			return i
		}
	}
	return min(len(a), len(b))
}
