package props

import (
	"errors"
	"fmt"
	"sort"
	"time"

	"github.com/pion/interceptor"
	"github.com/pion/interceptor/pkg/twcc"
	"github.com/pion/rtcp"
	"github.com/pion/rtp"

	"verif/simrt"
)

// C05: TWCC feedback reports exactly what was received, in valid wire form.

type c05Cfg struct {
	Interceptor bool  `json:"interceptor"`
	IntervalMs  int   `json:"interval_ms"`
	Streams     int   `json:"streams"`
	BaseUs      int64 `json:"base_us,omitempty"` // direct mode: how long the recorder's arrival clock has been running
}

type c05Op struct {
	K    string `json:"k"` // r (record / deliver), b (build; direct mode)
	U    int64  `json:"u,omitempty"`
	AtUs int64  `json:"at_us"`
	S    int    `json:"s,omitempty"`
	Err  bool   `json:"err,omitempty"`
}

type c05 struct{}

func init() { register(c05{}) }

func (c05) ID() string { return "C05" }

func (c05) Gen(seed int64, tier string, avoid []string) *Plan {
	p, r := newPlan("C05", seed, tier, avoid)
	cfg := c05Cfg{Interceptor: chance(r, 350), IntervalMs: pick(r, 10, 25, 50, 100, 250), Streams: pick(r, 1, 1, 2, 3)}
	if !cfg.Interceptor {
		// the 24-bit reference time (64 ms units) wraps after 12.4 days of arrival clock
		const wrapUs = int64(1) << 24 * 64000
		cfg.BaseUs = pick(r, 0, 0, 0, wrapUs-1_500_000, wrapUs+3_600_000_000, 3*wrapUs-200_000)
	}
	avoidSet := map[string]bool{}
	for _, a := range avoid {
		avoidSet[a] = true
	}
	n := pick(r, 10, 40, 120, 300)
	if tier == "thorough" {
		n = pick(r, 40, 300, 1500)
	}
	var u int64
	switch r.Intn(4) {
	case 0:
		u = 65536 - int64(r.Intn(n+1)) // crosses the wrap
	case 1:
		u = 0
		if avoidSet["c05-start-near-zero"] {
			u = 1000
		}
	default:
		u = int64(1000 + r.Intn(60000))
	}
	dropP := pick(r, 0, 20, 100, 400)
	dupP := pick(r, 0, 0, 30, 150)
	reoP := pick(r, 0, 0, 100, 400)
	jumpP := pick(r, 0, 0, 0, 10)
	gapP := pick(r, 0, 0, 10, 40)
	spacing := int64(pick(r, 100, 1000, 5000, 20000, 70000))
	at := int64(r.Intn(1000)) + 1
	burst := 0
	type rec struct {
		u, at int64
	}
	var recs []rec
	for i := 0; i < n; i++ {
		at += spacing + int64(r.Intn(int(spacing/2+1)))
		if chance(r, gapP) {
			at += int64(pick(r, 300_000, 600_000, 5_000_000, 9_000_000, 70_000_000, 3_600_000_000))
		}
		if chance(r, jumpP) {
			u += int64(pick(r, 200, 5000, 32000, 33000, 40000, 70000))
		}
		cur := u
		u++
		if burst > 0 {
			burst--
			continue
		}
		if chance(r, dropP) {
			if chance(r, 150) {
				burst = r.Intn(40)
			}
			continue
		}
		t := at
		if chance(r, reoP) {
			t += int64(r.Intn(10)) * spacing
		}
		recs = append(recs, rec{cur, t})
		if chance(r, dupP) {
			recs = append(recs, rec{cur, t + int64(pick(r, 0, 100, 3000, 200_000, 700_000))})
		}
	}
	sort.SliceStable(recs, func(i, j int) bool { return recs[i].at < recs[j].at })
	var ops []c05Op
	buildP := pick(r, 30, 100, 300)
	if !cfg.Interceptor && chance(r, 100) {
		ops = append(ops, c05Op{K: "b"})
	}
	for _, rc := range recs {
		o := c05Op{K: "r", U: rc.u, AtUs: rc.at, S: r.Intn(cfg.Streams)}
		if !cfg.Interceptor && chance(r, 50) {
			o.AtUs -= int64(r.Intn(3000)) // non-monotone arrival clock (direct mode only)
			if o.AtUs < 0 {
				o.AtUs = 0
			}
		}
		if cfg.Interceptor && chance(r, 10) {
			o.Err = true
		}
		ops = append(ops, o)
		if !cfg.Interceptor && chance(r, buildP) {
			ops = append(ops, c05Op{K: "b", AtUs: rc.at})
			if chance(r, 100) {
				ops = append(ops, c05Op{K: "b", AtUs: rc.at})
			}
		}
	}
	if !cfg.Interceptor {
		ops = append(ops, c05Op{K: "b", AtUs: at})
	}
	p.Cfg = mustJSON(cfg)
	setOps(p, ops)
	if len(recs) > 0 {
		p.LimitMs = recs[len(recs)-1].at/1000 + 600_000
	}
	return p
}

type c05Rec struct {
	u, a int64
}

type c05Model struct {
	recs      []c05Rec
	hiU       []int64
	byU       map[int64][]int
	last      int64
	prevBuild int
	nextFb    uint8
	haveFb    bool
	track     verTrack
	ambiguous bool // a packet arrived exactly 2^15 numbers away from its predecessor: which packet it is, is undefined
}

const c05Period = int64(1<<24) * 64000

//go:norace
func (m *c05Model) record(seq uint16, a int64) {
	var u int64
	// reference unwrapper: the value congruent to seq nearest to the previous
	// result (half-range rule), kept non-negative (property C20)
	if len(m.recs) == 0 {
		u = int64(seq)
	} else {
		if seq-uint16(m.last) == 0x8000 {
			m.ambiguous = true
		}
		u = m.last + int64(int16(seq-uint16(m.last)))
		if u < 0 {
			u += 65536
		}
	}
	m.last = u
	idx := len(m.recs)
	m.recs = append(m.recs, c05Rec{u, a})
	m.byU[u] = append(m.byU[u], idx)
	hi := u
	if idx > 0 && m.hiU[idx-1] > hi {
		hi = m.hiU[idx-1]
	}
	m.hiU = append(m.hiU, hi)
}

// forgettable: record idx (within prefix v) may legitimately have been dropped from the history.
//
//go:norace
func (m *c05Model) forgettable(idx, v int) bool {
	r := m.recs[idx]
	for j := idx + 1; j < v; j++ {
		if m.recs[j].a-r.a >= 500_000 || m.recs[j].u >= r.u+32768 {
			return true
		}
	}
	// a duplicate is not stored while the first copy is still held; the number is
	// then retained (and forgotten) according to the first copy's arrival
	for _, j := range m.byU[r.u] {
		if j < idx && m.forgettable(j, v) {
			return true
		}
	}
	return false
}

// checkBuild validates one build (the packets of one BuildFeedbackPacket call)
// against the first v records; returns "" when everything holds.
//
//go:norace
func (m *c05Model) checkBuild(e *Env, decs []*twccDecoded, v int) (sig, msg string) {
	if len(decs) == 0 {
		// nothing emitted: fine only if nothing had to be reported
		for idx := m.prevBuild; idx < v; idx++ {
			if m.demanded(idx, v) {
				return "unreported-record", fmt.Sprintf("record #%d (seq %d, arrival %dus) made since the previous feedback is not reported: the build produced no packet", idx, uint16(m.recs[idx].u), m.recs[idx].a)
			}
		}
		return "", ""
	}
	if v == 0 {
		return "feedback-without-records", "feedback built although nothing was recorded"
	}
	hi := m.hiU[v-1]
	reported := map[int64]bool{}
	var prevEnd int64
	for pi, d := range decs {
		ub := hi - int64(int16(uint16(hi)-d.Base))
		if uint16(hi)-d.Base == 0x8000 {
			// exactly half the number space away from the highest number: the half-range rule does not say
			// which way; take the reading for which arrivals were recorded
			alt, has := hi-32768, func(b int64) bool {
				for i := range d.Status {
					if len(m.byU[b+int64(i)]) > 0 {
						return true
					}
				}
				return false
			}
			if alt >= 0 && has(alt) && !has(ub) {
				ub = alt
			}
		}
		if pi > 0 {
			if ub < prevEnd {
				// try the next cycle up (ranges of one build increase)
				for ub < prevEnd-32768 {
					ub += 65536
				}
			}
			if ub < prevEnd {
				return "ranges-overlap", fmt.Sprintf("packet %d of the build starts at seq %d, inside or before the range of the previous packet (which ended at %d)", pi, d.Base, uint16(prevEnd-1))
			}
			if ub > prevEnd {
				// the only gap the format forces: more than 0x7FFE consecutive missing
				// numbers before the next received one
				firstRecv := int64(-1)
				for i, st := range d.Status {
					if st.Received {
						firstRecv = ub + int64(i)
						break
					}
				}
				if firstRecv < 0 || firstRecv-prevEnd <= 0x7FFE {
					return "ranges-not-consecutive", fmt.Sprintf("packet %d of the build starts at seq %d but the previous packet ended at %d: %d numbers get no status", pi, d.Base, uint16(prevEnd-1), ub-prevEnd)
				}
				e.Probe("forced_gap>0x7FFE")
			}
			for g := prevEnd; g < ub; g++ {
				for _, idx := range m.byU[g] {
					if idx < v && !m.forgettable(idx, v) {
						return "gap-hides-record", fmt.Sprintf("seq %d was recorded (arrival %dus) but lies in the gap between two feedback packets of one build", uint16(g), m.recs[idx].a)
					}
				}
			}
		}
		if d.Count == 0 {
			return "empty-feedback", "feedback packet with zero statuses"
		}
		for i, st := range d.Status {
			u := ub + int64(i)
			if st.Received {
				ok := false
				var have []int64
				for _, idx := range m.byU[u] {
					if idx >= v {
						continue
					}
					a := m.recs[idx].a
					have = append(have, a)
					diff := (a - st.TimeUs) % c05Period
					if diff < 0 {
						diff += c05Period
					}
					if diff > c05Period/2 {
						diff = c05Period - diff
					}
					if diff > 125 {
						continue
					}
					// must be the first copy still within the 500 ms history
					// (an earlier copy inside the window does not count if it was not the earliest copy of all: it
					// may itself have been ignored as a duplicate of a copy that was still held then and has been
					// forgotten since - when old entries are forgotten is the recorder's business)
					first := true
					for _, j := range m.byU[u] {
						if j != m.byU[u][0] {
							continue
						}
						if j < idx && m.recs[j].a > a-500_000 && m.recs[j].a <= a && j != idx {
							if d2 := a - m.recs[j].a; d2 > 125 {
								first = false
							}
						}
					}
					if first {
						ok = true
					}
				}
				if !ok {
					if len(have) == 0 {
						return "received-without-record", fmt.Sprintf("seq %d marked received (t=%dus) but no arrival was recorded for it", st.Seq, st.TimeUs)
					}
					return "wrong-arrival-time", fmt.Sprintf("seq %d marked received at %dus (mod 2^24*64ms); recorded arrivals %v (first copy within 500 ms must be reported, +-125us)", st.Seq, st.TimeUs%c05Period, have)
				}
				reported[u] = true
			} else {
				for _, idx := range m.byU[u] {
					if idx < v && !m.forgettable(idx, v) {
						return "recorded-marked-lost", fmt.Sprintf("seq %d marked not received although it was recorded (arrival %dus, record #%d of %d)", st.Seq, m.recs[idx].a, idx, v)
					}
				}
			}
		}
		prevEnd = ub + int64(d.Count)
	}
	for idx := m.prevBuild; idx < v; idx++ {
		if m.demanded(idx, v) && !reported[m.recs[idx].u] {
			return "unreported-record", fmt.Sprintf("record #%d (seq %d, arrival %dus) made since the previous feedback is not reported received by this one (build covers %s)", idx, uint16(m.recs[idx].u), m.recs[idx].a, c05Ranges(decs))
		}
	}
	return "", ""
}

//go:norace
func (m *c05Model) demanded(idx, v int) bool {
	r := m.recs[idx]
	if m.hiU[v-1]-r.u >= 32768 {
		return false
	}
	for _, j := range m.byU[r.u] {
		if j < idx {
			return false // a duplicate: the statement demands the first copy only
		}
	}
	// forgotten because of a jump of 2^15 or more
	for j := idx + 1; j < v; j++ {
		if m.recs[j].u >= r.u+32768 {
			return false
		}
	}
	return true
}

func c05Ranges(decs []*twccDecoded) string {
	s := ""
	for _, d := range decs {
		s += fmt.Sprintf("[%d+%d]", d.Base, d.Count)
	}
	return s
}

// decodeAll marshals each packet, decodes it independently and cross-checks pion's own parse.
//
//go:norace
func c05DecodeAll(e *Env, pkts []rtcp.Packet) ([]*twccDecoded, bool) {
	var decs []*twccDecoded
	for _, pkt := range pkts {
		cc, ok := pkt.(*rtcp.TransportLayerCC)
		if !ok {
			e.Violatef("oracle", "c05:foreign-rtcp", "TWCC sender wrote %T", pkt)
			return nil, false
		}
		b, err := cc.Marshal()
		if err != nil {
			e.Violatef("oracle", "c05:marshal", "feedback does not marshal: %v (%+v)", err, cc.Header)
			return nil, false
		}
		if int(cc.Header.Length+1)*4 != len(b) {
			e.Violatef("oracle", "c05:declared-length", "header declares %d bytes, Marshal produced %d", int(cc.Header.Length+1)*4, len(b))
			return nil, false
		}
		d, err := decodeTWCC(b)
		if err != nil {
			e.Violatef("oracle", "c05:wire-form", "independent decoder rejects the feedback: %v (bytes %x)", err, b)
			return nil, false
		}
		// pion's own parser must agree
		var back rtcp.TransportLayerCC
		if err := back.Unmarshal(b); err != nil {
			e.Violatef("oracle", "c05:parse-back", "feedback does not parse back: %v", err)
			return nil, false
		}
		if back.BaseSequenceNumber != d.Base || int(back.PacketStatusCount) != d.Count || back.ReferenceTime != d.RefTime || back.FbPktCount != d.FbCount {
			e.Violatef("oracle", "c05:parse-back", "pion parse (base %d count %d ref %d fb %d) disagrees with the independent decoder (base %d count %d ref %d fb %d)", back.BaseSequenceNumber, back.PacketStatusCount, back.ReferenceTime, back.FbPktCount, d.Base, d.Count, d.RefTime, d.FbCount)
			return nil, false
		}
		nrecv := 0
		for _, st := range d.Status {
			if st.Received {
				if nrecv >= len(back.RecvDeltas) || back.RecvDeltas[nrecv].Delta != st.DeltaUs {
					e.Violatef("oracle", "c05:parse-back", "delta %d disagrees between pion's parse and the independent decoder", nrecv)
					return nil, false
				}
				nrecv++
			}
		}
		if nrecv != len(back.RecvDeltas) {
			e.Violatef("oracle", "c05:delta-count", "%d received statuses but %d deltas", nrecv, len(back.RecvDeltas))
			return nil, false
		}
		decs = append(decs, d)
	}
	return decs, true
}

//go:norace
func c05Check(e *Env, m *c05Model, pkts []rtcp.Packet, lo, hi int) {
	e.Check()
	decs, ok := c05DecodeAll(e, pkts)
	if !ok {
		return
	}
	if m.ambiguous {
		// (the half-range rule gives no identity to a number exactly 2^15 away; nothing can be demanded afterwards)
		e.Probe("ambiguous_half_range_jump")
		return
	}
	for _, d := range decs {
		if m.haveFb && d.FbCount != m.nextFb {
			e.Violatef("oracle", "c05:fb-count", "feedback packet count %d, expected %d", d.FbCount, m.nextFb)
		}
		m.haveFb = true
		m.nextFb = d.FbCount + 1
		if len(d.ChunkKinds) > 1 {
			e.Probe("multi_chunk")
		}
		for _, st := range d.Status {
			if st.Received && st.Large {
				e.Probe("large_delta")
				if st.DeltaUs < 0 {
					e.Probe("negative_delta")
				}
				break
			}
		}
	}
	if len(decs) > 1 {
		e.Probe("split_build")
	}
	var firstSig, firstMsg string
	for v := hi; v >= lo; v-- {
		sig, msg := m.checkBuild(e, decs, v)
		if sig == "" {
			m.prevBuild = v
			if v > 0 && m.hiU[v-1]-m.recs[0].u >= 65536 {
				e.Probe("wrap_crossed")
			}
			return
		}
		if firstSig == "" {
			firstSig, firstMsg = sig, msg
		}
	}
	e.Violatef("oracle", "c05:"+firstSig, "records[%d..%d]: %s", lo, hi, firstMsg)
	m.prevBuild = hi
}

func (c05) Run(e *Env) {
	cfg := cfgOf[c05Cfg](e.Plan)
	ops := opsOf[c05Op](e.Plan)
	e.SetSample(fmt.Sprintf("interceptor=%v interval=%dms streams=%d ops=%d", cfg.Interceptor, cfg.IntervalMs, cfg.Streams, len(ops)))
	m := &c05Model{byU: map[int64][]int{}}
	if !cfg.Interceptor {
		rec := twcc.NewRecorder(4242)
		for _, o := range ops {
			switch o.K {
			case "r":
				if n := len(m.recs); n > 0 {
					switch {
					case len(m.byU[m.last+int64(int16(uint16(o.U)-uint16(m.last)))]) > 0:
						e.Fault("dup")
					case int16(uint16(o.U)-uint16(m.hiU[n-1])) < 0:
						e.Fault("reorder")
					case int16(uint16(o.U)-uint16(m.hiU[n-1])) > 1:
						e.Fault("loss_gap")
					}
					if o.AtUs < m.recs[n-1].a {
						e.Fault("arrival_clock_backwards")
					} else if o.AtUs-m.recs[n-1].a > 8_000_000 {
						e.Fault("arrival_gap>8s")
					}
				}
				rec.Record(uint32(100+o.S), uint16(o.U), cfg.BaseUs+o.AtUs)
				m.record(uint16(o.U), cfg.BaseUs+o.AtUs)
			case "b":
				pkts := rec.BuildFeedbackPacket()
				c05Check(e, m, pkts, len(m.recs), len(m.recs))
			}
		}
		return
	}
	// interceptor path
	t0 := time.Now()
	f, _ := twcc.NewSenderInterceptor(twcc.SendInterval(time.Duration(cfg.IntervalMs) * time.Millisecond))
	ic, err := f.NewInterceptor("")
	if err != nil {
		e.Violatef("oracle", "c05:construct", "%v", err)
		return
	}
	wake := map[int]int{}
	e.S.OnRelease = func(g *simrt.G, woke bool) {
		if woke && !g.App {
			wake[g.ID] = m.track.outer
		}
	}
	ic.BindRTCPWriter(interceptor.RTCPWriterFunc(func(pkts []rtcp.Packet, _ interceptor.Attributes) (int, error) {
		lo, ok := wake[simrt.Cur().ID]
		if !ok {
			lo = 0
		}
		c05Check(e, m, pkts, lo, m.track.inner)
		return 0, nil
	}))
	var cur c05Op
	var lastErr bool
	readers := make([]interceptor.RTPReader, cfg.Streams)
	for s := 0; s < cfg.Streams; s++ {
		info := streamInfo(uint32(100+s), 96, 90000, "twcc")
		info.RTPHeaderExtensions = []interceptor.RTPHeaderExtension{{URI: twccURI, ID: 3 + s}}
		s := s
		readers[s] = ic.BindRemoteStream(info, interceptor.RTPReaderFunc(func(b []byte, a interceptor.Attributes) (int, interceptor.Attributes, error) {
			simrt.SleepUntil(us(cur.AtUs))
			if cur.Err {
				lastErr = true
				e.Fault("reader_err")
				return 0, nil, errInjected
			}
			lastErr = false
			h := rtp.Header{Version: 2, SSRC: uint32(100 + s), PayloadType: 96, SequenceNumber: uint16(cur.U * 3)}
			ext, _ := (&rtp.TransportCCExtension{TransportSequence: uint16(cur.U)}).Marshal()
			_ = h.SetExtension(uint8(3+s), ext)
			raw, _ := (&rtp.Packet{Header: h, Payload: []byte{1, 2, 3}}).Marshal()
			c05Arrive(m, uint16(cur.U), time.Since(t0).Microseconds())
			return copy(b, raw), a, nil
		}))
	}
	rd := e.Go("reader", func() {
		buf := make([]byte, 1500)
		for _, o := range ops {
			if o.K != "r" || o.S >= cfg.Streams {
				continue
			}
			cur = o
			_, _, err := readers[o.S].Read(buf, interceptor.Attributes{})
			if err != nil && !errors.Is(err, errInjected) {
				e.Violatef("oracle", "c05:read-error", "%v", err)
			}
			if !lastErr {
				c05Returned(m)
			}
		}
	})
	e.Wait(rd)
	simrt.Sleep(time.Duration(2*cfg.IntervalMs+5) * time.Millisecond)
	ic.Close()
	// bounded liveness: after the last tick everything recorded has been reported
	if m.prevBuild < len(m.recs) {
		for idx := m.prevBuild; idx < len(m.recs); idx++ {
			if m.demanded(idx, len(m.recs)) {
				e.Violatef("oracle", "c05:unreported-record", "record #%d (seq %d) was never reported although two feedback intervals passed after the last arrival", idx, uint16(m.recs[idx].u))
				break
			}
		}
	}
}

//go:norace
func c05Arrive(m *c05Model, seq uint16, a int64) { m.record(seq, a); m.track.inner++ }

//go:norace
func c05Returned(m *c05Model) { m.track.outer++ }
