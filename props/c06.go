package props

import (
	"errors"
	"fmt"
	"math"
	"sort"
	"time"

	"github.com/pion/interceptor"
	"github.com/pion/interceptor/pkg/report"
	"github.com/pion/rtcp"

	"verif/simrt"
)

// C06: receiver reports follow RFC 3550 for the observed reception history.

type c06Cfg struct {
	SSRCs      []uint32 `json:"ssrcs"`
	ClockRates []uint32 `json:"clock_rates"`
	IntervalMs int      `json:"interval_ms"`
	TailMs     int      `json:"tail_ms"`
}

type c06Op struct {
	K     string `json:"k"` // p, sr, jump
	S     int    `json:"s,omitempty"`
	AtUs  int64  `json:"at_us"`
	Seq   uint16 `json:"seq,omitempty"`
	TS    uint32 `json:"ts,omitempty"`
	Err   bool   `json:"err,omitempty"`
	SSRC  uint32 `json:"ssrc,omitempty"` // sr
	NTP   uint64 `json:"ntp,omitempty"`  // sr
	OffUs int64  `json:"off_us,omitempty"`
	Pre   int    `json:"pre,omitempty"` // sr: 1 = a sender report of a foreign SSRC comes first in the same datagram, 2 = a receiver report and an SDES come first, 3 = a foreign sender report follows
}

type c06 struct{}

func init() { register(c06{}) }

func (c06) ID() string { return "C06" }

func (c06) Gen(seed int64, tier string, avoid []string) *Plan {
	p, r := newPlan("C06", seed, tier, avoid)
	avoidSet := map[string]bool{}
	for _, a := range avoid {
		avoidSet[a] = true
	}
	cfg := c06Cfg{IntervalMs: pick(r, 10, 50, 100, 500, 1000), TailMs: 20}
	ns := pick(r, 1, 1, 2, 3)
	n := pick(r, 20, 60, 200)
	if tier == "thorough" {
		n = pick(r, 60, 300, 1500)
	}
	longInterval := chance(r, 40) && !avoidSet["c06-interval>8192"]
	// a history longer than the 8192-number receive window that then crosses the sequence wrap with a loss burst
	// on it (stale bits from one window earlier must not count as received)
	longHistory := !longInterval && chance(r, 30)
	if longHistory {
		ns = 1
		n = 8300 + r.Intn(3000)
	}
	var ops []c06Op
	var end int64
	for s := 0; s < ns; s++ {
		cfg.SSRCs = append(cfg.SSRCs, uint32(7000+s*13))
		rate := pick(r, uint32(8000), 48000, 90000)
		cfg.ClockRates = append(cfg.ClockRates, rate)
		var seq uint16
		if r.Intn(3) == 0 {
			seq = uint16(65535 - r.Intn(n+1))
		} else {
			seq = uint16(r.Intn(65536))
		}
		var ts uint32
		switch r.Intn(3) {
		case 0:
			ts = math.MaxUint32 - uint32(r.Intn(int(rate)))
			if avoidSet["c06-ts-wrap"] {
				ts = r.Uint32() / 2
			}
		default:
			ts = r.Uint32() / 2
		}
		if longHistory {
			seq = uint16(65536 - (8200 + r.Intn(n-8250)))
		}
		burstAt, burstLen := uint16(65530+r.Intn(5)), uint16(3+r.Intn(6))
		dropP := pick(r, 0, 20, 100, 300)
		dupP := pick(r, 0, 0, 50)
		reoP := pick(r, 0, 0, 100, 300)
		errP := pick(r, 0, 0, 20)
		spacing := int64(pick(r, 1000, 5000, 20000))
		if longHistory {
			spacing, dropP, reoP = 1000, pick(r, 0, 20), pick(r, 0, 50)
		}
		at := int64(r.Intn(5)) * 1000
		for i := 0; i < n; i++ {
			at += spacing
			ts += uint32(float64(spacing) / 1e6 * float64(rate))
			cur := seq
			seq++
			if longInterval && i == n/2 {
				seq += uint16(8192 + r.Intn(3000)) // a burst loss longer than the history
			} else if chance(r, 5) {
				seq += uint16(r.Intn(300))
			}
			if chance(r, dropP) || (longHistory && cur-burstAt < burstLen) {
				continue
			}
			t := at + int64(r.Intn(3))*500
			if chance(r, reoP) {
				t += int64(r.Intn(10)) * spacing / 2
			}
			ops = append(ops, c06Op{K: "p", S: s, AtUs: t, Seq: cur, TS: ts, Err: chance(r, errP)})
			if chance(r, dupP) {
				ops = append(ops, c06Op{K: "p", S: s, AtUs: t + int64(r.Intn(5))*spacing, Seq: cur, TS: ts})
			}
		}
		if at > end {
			end = at
		}
	}
	nsr := pick(r, 0, 1, 3, 6)
	for i := 0; i < nsr; i++ {
		ssrc := cfg.SSRCs[r.Intn(ns)]
		if chance(r, 200) {
			ssrc = 424242 // foreign
		}
		ntp := r.Uint64()
		if chance(r, 150) {
			ntp = uint64(r.Uint32()) << 48 // middle 32 bits zero
		}
		ops = append(ops, c06Op{K: "sr", AtUs: r.Int63n(end + 1), SSRC: ssrc, NTP: ntp, Pre: pick(r, 0, 0, 1, 1, 2, 3)})
	}
	if chance(r, 250) {
		for i := r.Intn(2) + 1; i > 0; i-- {
			ops = append(ops, c06Op{K: "jump", AtUs: r.Int63n(end + 1), OffUs: pick(r, int64(-2_000_000), 5000, 1_000_000, 7_200_000_000)})
		}
	}
	sort.SliceStable(ops, func(i, j int) bool { return ops[i].AtUs < ops[j].AtUs })
	p.Cfg = mustJSON(cfg)
	setOps(p, ops)
	return p
}

type c06State struct {
	prevExt int64 // extended highest at the previous report
	cum     uint32
}

type c06Stream struct {
	ssrc uint32
	rate float64
	// per accepted arrival k
	seqs    []uint16
	tss     []uint32
	arrival []time.Time // clock value the library sampled for packet k
	ext     []int64     // extended highest after k+1 packets
	jitter  []float64
	recvAt  map[int64]int
	first   int64
	track   verTrack
	states  []c06State
	// sender reports for this SSRC, in processing order
	srNTP  []uint64
	srTime []time.Time
	srDone int // RTCP reads returned
}

func (c06) Run(e *Env) {
	cfg := cfgOf[c06Cfg](e.Plan)
	ops := opsOf[c06Op](e.Plan)
	e.SetSample(fmt.Sprintf("streams=%d rates=%v interval=%dms ops=%d", len(cfg.SSRCs), cfg.ClockRates, cfg.IntervalMs, len(ops)))
	type jump struct{ at, off time.Duration }
	var jumps []jump
	for _, o := range ops {
		if o.K == "jump" {
			jumps = append(jumps, jump{us(o.AtUs), us(o.OffUs)})
			e.Fault("clock_jump")
		}
	}
	lastNow := map[int]time.Time{}
	hooks := map[int]func(time.Time){}
	clock := func() time.Time {
		el := e.S.Now()
		var off time.Duration
		for _, j := range jumps {
			if el >= j.at {
				off = j.off
			}
		}
		t := time.Now().Add(off)
		c07Record(lastNow, hooks, t)
		return t
	}
	f, _ := report.NewReceiverInterceptor(report.ReceiverNow(clock), report.ReceiverInterval(time.Duration(cfg.IntervalMs)*time.Millisecond), report.WithReceiverLoggerFactory(nopLoggerFactory{}))
	ic, err := f.NewInterceptor("")
	if err != nil {
		e.Violatef("oracle", "c06:construct", "%v", err)
		return
	}
	streams := map[uint32]*c06Stream{}
	var order []*c06Stream
	for i, ssrc := range cfg.SSRCs {
		st := &c06Stream{ssrc: ssrc, rate: float64(cfg.ClockRates[i]), recvAt: map[int64]int{}}
		streams[ssrc] = st
		order = append(order, st)
	}
	type snap struct{ outer, sr int }
	wake := map[int]map[uint32]snap{}
	e.S.OnRelease = func(g *simrt.G, woke bool) {
		if woke && !g.App {
			m := map[uint32]snap{}
			for ssrc, st := range streams {
				m[ssrc] = snap{st.track.outer, st.srDone}
			}
			wake[g.ID] = m
		}
	}
	ic.BindRTCPWriter(interceptor.RTCPWriterFunc(func(pkts []rtcp.Packet, _ interceptor.Attributes) (int, error) {
		g := simrt.Cur()
		for _, pkt := range pkts {
			rr, ok := pkt.(*rtcp.ReceiverReport)
			if !ok {
				e.Violatef("oracle", "c06:foreign-rtcp", "receiver interceptor wrote %T", pkt)
				continue
			}
			for _, rep := range rr.Reports {
				st := streams[rep.SSRC]
				if st == nil {
					e.Violatef("oracle", "c06:unknown-ssrc", "reception report for unknown SSRC %d", rep.SSRC)
					continue
				}
				lo, loSR := 0, 0
				if s, ok := wake[g.ID]; ok {
					lo, loSR = s[rep.SSRC].outer, s[rep.SSRC].sr
				}
				c06Check(e, st, rep, lastNow[g.ID], lo, loSR)
			}
		}
		return 0, nil
	}))
	// RTCP read loop delivering sender reports
	var srOps []c06Op
	for _, o := range ops {
		if o.K == "sr" {
			srOps = append(srOps, o)
		}
	}
	sridx := 0
	rtcpRd := ic.BindRTCPReader(interceptor.RTCPReaderFunc(func(b []byte, a interceptor.Attributes) (int, interceptor.Attributes, error) {
		o := srOps[sridx]
		sridx++
		simrt.SleepUntil(us(o.AtUs))
		batch := []rtcp.Packet{&rtcp.SenderReport{SSRC: o.SSRC, NTPTime: o.NTP, RTPTime: 1, PacketCount: 2, OctetCount: 3}}
		foreign := &rtcp.SenderReport{SSRC: 515151, NTPTime: ^o.NTP, RTPTime: 7, PacketCount: 8, OctetCount: 9}
		switch o.Pre {
		case 1:
			batch = append([]rtcp.Packet{foreign}, batch...)
			e.Fault("stacked_sender_reports")
		case 2:
			batch = append([]rtcp.Packet{&rtcp.ReceiverReport{SSRC: 515151}, &rtcp.SourceDescription{Chunks: []rtcp.SourceDescriptionChunk{{Source: 515151, Items: []rtcp.SourceDescriptionItem{{Type: rtcp.SDESCNAME, Text: "x"}}}}}}, batch...)
		case 3:
			batch = append(batch, foreign)
			e.Fault("stacked_sender_reports")
		}
		raw, err := rtcp.Marshal(batch)
		if err != nil {
			panic(err)
		}
		if st := streams[o.SSRC]; st != nil {
			c06SR(st, hooks, o.NTP)
		} else {
			e.Probe("foreign_sr")
		}
		return copy(b, raw), a, nil
	}))
	var gs []*simrt.G
	gs = append(gs, e.Go("rtcp-reader", func() {
		buf := make([]byte, 1500)
		for sridx < len(srOps) {
			o := srOps[sridx]
			if _, _, err := rtcpRd.Read(buf, interceptor.Attributes{}); err != nil {
				e.Violatef("oracle", "c06:rtcp-read-error", "%v", err)
			}
			if st := streams[o.SSRC]; st != nil {
				c06SRDone(st, hooks)
			}
		}
	}))
	for i, st := range order {
		info := streamInfo(st.ssrc, 96, cfg.ClockRates[i])
		var sops []c06Op
		for _, o := range ops {
			if o.K == "p" && o.S == i {
				sops = append(sops, o)
			}
		}
		idx := 0
		lastErr := false
		rd := ic.BindRemoteStream(info, interceptor.RTPReaderFunc(func(b []byte, a interceptor.Attributes) (int, interceptor.Attributes, error) {
			o := sops[idx]
			idx++
			simrt.SleepUntil(us(o.AtUs))
			if o.Err {
				lastErr = true
				e.Fault("reader_err")
				return 0, nil, errInjected
			}
			lastErr = false
			c06Arrive(st, hooks, o)
			return copy(b, rtpBytes(st.ssrc, 96, o.Seq, o.TS, 8)), a, nil
		}))
		gs = append(gs, e.Go(fmt.Sprintf("reader%d", i), func() {
			buf := make([]byte, 1500)
			for idx < len(sops) {
				_, _, err := rd.Read(buf, interceptor.Attributes{})
				if err != nil && !errors.Is(err, errInjected) {
					e.Violatef("oracle", "c06:read-error", "%v", err)
				}
				if !lastErr {
					c06Returned(st, hooks)
				}
			}
		}))
	}
	e.Wait(gs...)
	simrt.Sleep(time.Duration(cfg.TailMs+cfg.IntervalMs) * time.Millisecond)
	ic.Close()
}

//go:norace
func c06Arrive(st *c06Stream, hooks map[int]func(time.Time), o c06Op) {
	k := len(st.seqs)
	st.seqs = append(st.seqs, o.Seq)
	st.tss = append(st.tss, o.TS)
	var ext int64
	if k == 0 {
		ext = 1<<32 + int64(o.Seq)
		st.first = ext
		st.recvAt[ext] = 0
	} else {
		prev := st.ext[k-1]
		d := int64(int16(o.Seq - uint16(prev)))
		u := prev + d
		if _, ok := st.recvAt[u]; !ok {
			st.recvAt[u] = k
		}
		ext = prev
		if d > 0 {
			ext = u
		}
	}
	st.ext = append(st.ext, ext)
	st.track.inner++
	hooks[simrt.Cur().ID] = func(t time.Time) {
		if len(st.arrival) != k {
			return
		}
		// the library samples the arrival clock once per accepted packet: RFC 3550 A.8
		st.arrival = append(st.arrival, t)
		j := 0.0
		if k > 0 {
			dArr := t.Sub(st.arrival[k-1]).Seconds() * st.rate
			dTS := float64(int32(st.tss[k] - st.tss[k-1]))
			d := math.Abs(dArr - dTS)
			j = st.jitter[k-1] + (d-st.jitter[k-1])/16
		}
		st.jitter = append(st.jitter, j)
	}
}

//go:norace
func c06Returned(st *c06Stream, hooks map[int]func(time.Time)) {
	st.track.outer++
	hooks[simrt.Cur().ID] = nil
}

//go:norace
func c06SR(st *c06Stream, hooks map[int]func(time.Time), ntp uint64) {
	k := len(st.srNTP)
	st.srNTP = append(st.srNTP, ntp)
	hooks[simrt.Cur().ID] = func(t time.Time) {
		if len(st.srTime) == k {
			st.srTime = append(st.srTime, t)
		}
	}
}

//go:norace
func c06SRDone(st *c06Stream, hooks map[int]func(time.Time)) {
	st.srDone++
	hooks[simrt.Cur().ID] = nil
}

//go:norace
func c06Check(e *Env, st *c06Stream, rep rtcp.ReceptionReport, now time.Time, lo, loSR int) {
	e.Check()
	hi := len(st.arrival) // packets whose arrival clock the library has sampled
	if lo > hi {
		lo = hi
	}
	if hi == 0 {
		// nothing received yet: the statement only fixes LSR/DLSR = 0 before any SR
		if len(st.srTime) == 0 && (rep.LastSenderReport != 0 || rep.Delay != 0) {
			e.Violatef("oracle", "c06:lsr-before-sr", "LSR=%d DLSR=%d before any sender report", rep.LastSenderReport, rep.Delay)
		}
		return
	}
	zeroOK := lo == 0 // the reporting goroutine may have seen the stream before its first packet was processed
	if lo < 1 {
		lo = 1
	}
	if hi > lo {
		e.Probe("version_window>1")
	}
	// --- LSR / DLSR
	hiSR := len(st.srTime)
	okSR := false
	var whySR string
	for j := hiSR; j >= loSR && j >= 0; j-- {
		var wantLSR, wantD uint32
		if j > 0 {
			wantLSR = uint32(st.srNTP[j-1] >> 16)
			wantD = uint32(int64(math.Floor(now.Sub(st.srTime[j-1]).Seconds() * 65536)))
		}
		dd := int64(rep.Delay) - int64(wantD)
		if dd < 0 {
			dd = -dd
		}
		if j > 0 && now.Before(st.srTime[j-1]) && rep.LastSenderReport == wantLSR {
			// the supplied clock was set back past the sender report's arrival: "delay since" is not defined
			okSR = true
			e.Probe("dlsr_negative_elapsed")
			break
		}
		if rep.LastSenderReport == wantLSR && dd <= 1 {
			okSR = true
			if j > 0 {
				e.Probe("lsr_checked")
			}
			break
		}
		if whySR == "" {
			whySR = fmt.Sprintf("LSR=%#x DLSR=%d, expected LSR=%#x DLSR=%d (after %d sender reports)", rep.LastSenderReport, rep.Delay, wantLSR, wantD, j)
		}
	}
	if !okSR {
		e.Violatef("oracle", "c06:lsr-dlsr", "SSRC %d: %s", st.ssrc, whySR)
	}
	// --- sequence / loss / jitter at some version
	if len(st.states) == 0 {
		st.states = []c06State{{prevExt: st.first - 1}}
	}
	var next []c06State
	why := map[string]string{}
	for v := hi; v >= lo; v-- {
		ext := st.ext[v-1]
		if rep.LastSequenceNumber != uint32(ext) {
			why["ext-seq"] = fmt.Sprintf("extended highest seq %#x, expected %#x at version %d", rep.LastSequenceNumber, uint32(ext), v)
			continue
		}
		jw := st.jitter[v-1]
		if math.Abs(float64(rep.Jitter)-math.Floor(jw)) > 1+jw*1e-9 {
			why["jitter"] = fmt.Sprintf("jitter %d, RFC 3550 A.8 reference %.3f at version %d", rep.Jitter, jw, v)
			continue
		}
		for _, s := range st.states {
			expected := ext - s.prevExt
			var lost int64
			if expected > 0 {
				for n := s.prevExt + 1; n <= ext; n++ {
					if at, ok := st.recvAt[n]; !ok || at > v-1 {
						lost++
					}
				}
			}
			var frac uint8
			if expected > 0 {
				frac = uint8(lost * 256 / expected)
			}
			cum := uint64(s.cum) + uint64(lost)
			if cum > 0xFFFFFF {
				cum = 0xFFFFFF
			}
			if rep.FractionLost != frac || uint64(rep.TotalLost) != cum {
				k := "loss"
				if expected > 8192 {
					k = "loss:interval>8192"
				}
				why[k] = fmt.Sprintf("fraction %d cumulative %d, expected fraction %d (lost %d of %d) cumulative %d at version %d", rep.FractionLost, rep.TotalLost, frac, lost, expected, cum, v)
				continue
			}
			if expected > 8192 {
				e.Probe("interval>8192")
			}
			if lost > 0 {
				e.Probe("interval_loss")
			}
			next = append(next, c06State{prevExt: ext, cum: uint32(cum)})
		}
	}
	if ext := st.ext[hi-1]; ext-st.first >= 65536 {
		e.Probe("seq_cycle")
	}
	if len(next) == 0 && zeroOK && rep.LastSequenceNumber == 0 && rep.FractionLost == 0 && rep.TotalLost == 0 && rep.Jitter == 0 {
		e.Probe("report_before_first_packet")
		return
	}
	if len(next) == 0 {
		for _, k := range []string{"loss", "loss:interval>8192", "jitter", "ext-seq"} {
			if w, ok := why[k]; ok {
				e.Violatef("oracle", "c06:"+k, "SSRC %d versions[%d..%d]: %s", st.ssrc, lo, hi, w)
				break
			}
		}
		// resynchronise on what the report says so that one error is reported once
		st.states = st.states[:0]
		for v := hi; v >= lo; v-- {
			if uint32(st.ext[v-1]) == rep.LastSequenceNumber {
				st.states = append(st.states, c06State{prevExt: st.ext[v-1], cum: rep.TotalLost})
				break
			}
		}
		if len(st.states) == 0 {
			st.states = []c06State{{prevExt: st.ext[hi-1], cum: rep.TotalLost}}
		}
		return
	}
	// dedupe
	seen := map[c06State]bool{}
	st.states = st.states[:0]
	for _, s := range next {
		if !seen[s] {
			seen[s] = true
			st.states = append(st.states, s)
		}
	}
}
