package props

import (
	"fmt"
	"math"
	"sort"
	"time"

	"github.com/pion/interceptor"
	"github.com/pion/interceptor/pkg/report"
	"github.com/pion/rtcp"
	"github.com/pion/rtp"

	"verif/simrt"
)

// C07: sender reports count what was sent and map RTP time to wall time.

type c07Cfg struct {
	SSRCs      []uint32 `json:"ssrcs"`
	ClockRates []uint32 `json:"clock_rates"`
	UseLatest  bool     `json:"use_latest"`
	IntervalMs int      `json:"interval_ms"` // 0: custom ticker driven by tick ops
	TailMs     int      `json:"tail_ms"`
	ReuseHdr   bool     `json:"reuse_hdr,omitempty"` // the caller reuses (and overwrites) one header object per stream
}

type c07Op struct {
	K     string `json:"k"` // w, tick, jump
	S     int    `json:"s,omitempty"`
	AtUs  int64  `json:"at_us"`
	Seq   uint16 `json:"seq,omitempty"`
	TS    uint32 `json:"ts,omitempty"`
	Len   int    `json:"len,omitempty"`
	OffUs int64  `json:"off_us,omitempty"` // jump: new clock offset
	WErr  bool   `json:"werr,omitempty"`   // downstream writer fails for this packet
}

type c07 struct{}

func init() { register(c07{}) }

func (c07) ID() string { return "C07" }

func (c07) Gen(seed int64, tier string, avoid []string) *Plan {
	p, r := newPlan("C07", seed, tier, avoid)
	cfg := c07Cfg{UseLatest: chance(r, 300), TailMs: 50}
	if chance(r, 600) {
		cfg.IntervalMs = pick(r, 5, 20, 100, 1000)
	}
	ns := pick(r, 1, 1, 2, 3)
	n := pick(r, 10, 40, 120)
	if tier == "thorough" {
		n = pick(r, 40, 200, 1000)
	}
	var ops []c07Op
	var end int64
	for s := 0; s < ns; s++ {
		cfg.SSRCs = append(cfg.SSRCs, uint32(9000+s))
		rate := pick(r, uint32(8000), 48000, 90000, 90000)
		cfg.ClockRates = append(cfg.ClockRates, rate)
		var seq uint16
		switch r.Intn(3) {
		case 0:
			seq = uint16(65535 - r.Intn(n+1))
		default:
			seq = uint16(r.Intn(65536))
		}
		var ts uint32
		switch r.Intn(4) {
		case 0:
			ts = 0
		case 1:
			ts = uint32(math.MaxUint32 - uint32(r.Intn(200000)))
		default:
			ts = r.Uint32()
		}
		at := int64(r.Intn(5000))
		frame := 1 + r.Intn(4)
		gapP := pick(r, 0, 0, 20)
		oooP := pick(r, 0, 0, 100, 300)
		var pend []c07Op
		for i := 0; i < n; i++ {
			if i%frame == 0 && i > 0 {
				step := int64(pick(r, 1000, 10000, 33000, 33333))
				if chance(r, gapP) {
					step = int64(pick(r, 1_000_000, 60_000_000, 3_600_000_000, 50_000_000_000)) // long pause
				}
				at += step
				ts += uint32(float64(step) / 1e6 * float64(rate))
				if chance(r, 150) {
					ts += uint32(r.Intn(50)) // sender clock not in lock-step with wall time
				}
			} else {
				at += int64(r.Intn(300))
			}
			o := c07Op{K: "w", S: s, AtUs: at, Seq: seq, TS: ts, Len: pick(r, 0, 0, 1, 100, 1200, 1460), WErr: chance(r, 10)}
			seq++
			if chance(r, 10) {
				seq += uint16(r.Intn(5)) // gap in sequence numbers
			}
			if chance(r, oooP) && len(pend) < 3 {
				pend = append(pend, o) // will be sent late (out of order)
				continue
			}
			ops = append(ops, o)
			if len(pend) > 0 && chance(r, 500) {
				for _, q := range pend {
					q.AtUs = at + int64(r.Intn(200))
					ops = append(ops, q)
				}
				pend = nil
			}
		}
		for _, q := range pend {
			q.AtUs = at + 100
			ops = append(ops, q)
		}
		if at > end {
			end = at
		}
	}
	if cfg.IntervalMs == 0 {
		nt := 3 + r.Intn(12)
		for i := 0; i < nt; i++ {
			t := r.Int63n(end + 20000)
			if chance(r, 500) && len(ops) > 0 {
				t = ops[r.Intn(len(ops))].AtUs + int64(pick(r, -1, 0, 0, 1, 50)) // collide with a send
				if t < 0 {
					t = 0
				}
			}
			ops = append(ops, c07Op{K: "tick", AtUs: t})
		}
	} else if end/1000/int64(cfg.IntervalMs) > 300 {
		cfg.IntervalMs = int(end/1000/200) + 1 // keep the number of ticks bounded
	}
	if chance(r, 300) {
		for i := r.Intn(3) + 1; i > 0; i-- {
			ops = append(ops, c07Op{K: "jump", AtUs: r.Int63n(end + 1), OffUs: pick(r, int64(-5_000_000), -20_000, 1000, 3_000_000, 86_400_000_000)})
		}
	}
	sort.SliceStable(ops, func(i, j int) bool { return ops[i].AtUs < ops[j].AtUs })
	cfg.ReuseHdr = chance(r, 400)
	p.Cfg = mustJSON(cfg)
	setOps(p, ops)
	p.LimitMs = (end/1000 + 100_000)
	return p
}

type c07Stream struct {
	ssrc uint32
	rate float64
	// per write k (appended when the write is entered)
	sendTime []time.Time // wall clock sampled by the library for write k
	octets   []uint64    // cumulative payload bytes after k+1 writes
	refTS    []uint32    // reference RTP timestamp after k+1 writes
	refTime  []int       // index of the write whose send instant anchors the reference
	lastSN   uint16
	entered  int
	returned int
	cur      int
}

type c07Tick struct {
	ch chan time.Time
}

func (t *c07Tick) Ch() <-chan time.Time { return t.ch }
func (t *c07Tick) Stop()                {}

func (c07) Run(e *Env) {
	cfg := cfgOf[c07Cfg](e.Plan)
	ops := opsOf[c07Op](e.Plan)
	e.SetSample(fmt.Sprintf("streams=%d rates=%v use_latest=%v interval=%dms ops=%d", len(cfg.SSRCs), cfg.ClockRates, cfg.UseLatest, cfg.IntervalMs, len(ops)))
	// clock with jumps: offset is a pure function of bubble time
	type jump struct{ at, off time.Duration }
	var jumps []jump
	for _, o := range ops {
		if o.K == "jump" {
			jumps = append(jumps, jump{us(o.AtUs), us(o.OffUs)})
		}
	}
	lastNow := map[int]time.Time{} // goroutine id -> last clock value handed out (own key only)
	hooks := map[int]func(time.Time){}
	clock := func() time.Time {
		now := time.Now()
		el := e.S.Now()
		var off time.Duration
		for _, j := range jumps {
			if el >= j.at {
				off = j.off
			}
		}
		t := now.Add(off)
		c07Record(lastNow, hooks, t)
		return t
	}
	tick := &c07Tick{ch: make(chan time.Time)}
	opts := []report.SenderOption{report.SenderNow(clock), report.WithSenderLoggerFactory(nopLoggerFactory{})}
	if cfg.IntervalMs > 0 {
		opts = append(opts, report.SenderInterval(time.Duration(cfg.IntervalMs)*time.Millisecond))
	} else {
		opts = append(opts, report.SenderTicker(func(time.Duration) report.Ticker { return tick }))
	}
	if cfg.UseLatest {
		opts = append(opts, report.SenderUseLatestPacket())
	}
	f, _ := report.NewSenderInterceptor(opts...)
	ic, err := f.NewInterceptor("")
	if err != nil {
		e.Violatef("oracle", "c07:construct", "%v", err)
		return
	}
	streams := map[uint32]*c07Stream{}
	var order []*c07Stream
	for i, ssrc := range cfg.SSRCs {
		st := &c07Stream{ssrc: ssrc, rate: float64(cfg.ClockRates[i])}
		streams[ssrc] = st
		order = append(order, st)
	}
	wake := map[int]map[uint32]int{}
	e.S.OnRelease = func(g *simrt.G, woke bool) {
		if woke && !g.App {
			snap := map[uint32]int{}
			for ssrc, st := range streams {
				snap[ssrc] = st.returned
			}
			wake[g.ID] = snap
		}
	}
	ic.BindRTCPWriter(interceptor.RTCPWriterFunc(func(pkts []rtcp.Packet, _ interceptor.Attributes) (int, error) {
		c07Check(e, cfg, streams, wake, lastNow, pkts)
		return 0, nil
	}))
	var gs []*simrt.G
	for i, st := range order {
		info := streamInfo(st.ssrc, 96, cfg.ClockRates[i])
		var failNext bool
		w := ic.BindLocalStream(info, interceptor.RTPWriterFunc(func(h *rtp.Header, pl []byte, _ interceptor.Attributes) (int, error) {
			if failNext {
				e.Fault("writer_err")
				return 0, errInjected
			}
			return len(pl), nil
		}))
		var sops []c07Op
		for _, o := range ops {
			if o.K == "w" && o.S == i {
				sops = append(sops, o)
			}
		}
		gs = append(gs, e.Go(fmt.Sprintf("writer%d", i), func() {
			me := simrt.Cur().ID
			reused := &rtp.Header{}
			for _, o := range sops {
				simrt.SleepUntil(us(o.AtUs))
				h := &rtp.Header{Version: 2, SSRC: st.ssrc, PayloadType: 96, SequenceNumber: o.Seq, Timestamp: o.TS}
				if cfg.ReuseHdr {
					*reused = *h
					h = reused
					e.Fault("caller_reuses_header")
				}
				pl := make([]byte, o.Len)
				c07Enter(st, hooks, me, cfg.UseLatest, o)
				failNext = o.WErr
				n, err := w.Write(h, pl, interceptor.Attributes{})
				if o.WErr {
					if err == nil {
						e.Violatef("oracle", "c07:error-swallowed", "downstream write error not returned to the caller")
					}
				} else if err != nil || n != len(pl) {
					e.Violatef("oracle", "c07:write-result", "Write returned (%d,%v)", n, err)
				}
				c07Return(st)
				if cfg.ReuseHdr {
					// the header is the caller's again: whatever it holds now must not show up in a report
					h.Timestamp ^= 0x5A5A5A5A
					h.SequenceNumber += 7777
				}
			}
		}))
	}
	if cfg.IntervalMs == 0 {
		gs = append(gs, e.Go("ticker", func() {
			for _, o := range ops {
				if o.K == "tick" {
					simrt.SleepUntil(us(o.AtUs))
					simrt.Send("tick", tick.ch, time.Now())
					e.Fault("tick_placed")
				}
			}
		}))
	}
	e.Wait(gs...)
	simrt.Sleep(time.Duration(cfg.TailMs)*time.Millisecond + time.Duration(cfg.IntervalMs)*time.Millisecond)
	ic.Close()
}

//go:norace
func c07Record(lastNow map[int]time.Time, hooks map[int]func(time.Time), t time.Time) {
	if g := simrt.Cur(); g != nil {
		lastNow[g.ID] = t
		if h := hooks[g.ID]; h != nil {
			h(t)
		}
	}
}

// c07Enter extends the reference model by one write (before the library sees it).
//
//go:norace
func c07Enter(st *c07Stream, hooks map[int]func(time.Time), me int, useLatest bool, o c07Op) {
	k := st.entered
	prevOct := uint64(0)
	refTS, refIdx := uint32(0), 0
	if k > 0 {
		prevOct = st.octets[k-1]
		refTS, refIdx = st.refTS[k-1], st.refTime[k-1]
	}
	d := o.Seq - st.lastSN
	if useLatest || k == 0 || (d > 0 && d < 1<<15) {
		st.lastSN = o.Seq
		if k == 0 || o.TS != refTS {
			refTS, refIdx = o.TS, k
		}
	}
	st.octets = append(st.octets, prevOct+uint64(o.Len))
	st.refTS = append(st.refTS, refTS)
	st.refTime = append(st.refTime, refIdx)
	st.sendTime = append(st.sendTime, time.Time{})
	hooks[me] = func(t time.Time) {
		if st.sendTime[k].IsZero() {
			st.sendTime[k] = t
		}
	}
	st.entered++
}

//go:norace
func c07Return(st *c07Stream) { st.returned++ }

//go:norace
func c07Check(e *Env, cfg c07Cfg, streams map[uint32]*c07Stream, wake map[int]map[uint32]int, lastNow map[int]time.Time, pkts []rtcp.Packet) {
	g := simrt.Cur()
	for _, pkt := range pkts {
		sr, ok := pkt.(*rtcp.SenderReport)
		if !ok {
			e.Violatef("oracle", "c07:foreign-rtcp", "sender interceptor wrote %T", pkt)
			continue
		}
		st := streams[sr.SSRC]
		if st == nil {
			e.Violatef("oracle", "c07:unknown-ssrc", "sender report for unknown SSRC %d", sr.SSRC)
			continue
		}
		e.Check()
		now, okNow := lastNow[g.ID]
		if !okNow {
			e.Violatef("oracle", "c07:no-clock", "report written without reading the supplied clock")
			continue
		}
		// NTP timestamp = report instant (exact integer conversion, +-1us)
		sec := uint64(now.Unix() + 2208988800)
		frac := uint64(now.Nanosecond()) << 32 / 1_000_000_000
		want := sec<<32 | frac
		diff := int64(sr.NTPTime - want)
		if diff < 0 {
			diff = -diff
		}
		if diff > 4295+1 {
			e.Violatef("oracle", "c07:ntp", "SSRC %d: NTP %#x, report instant %v = %#x (off by %d / 2^32 s)", sr.SSRC, sr.NTPTime, now, want, diff)
		}
		hi := st.entered
		lo := hi
		if snap, ok := wake[g.ID]; ok {
			lo = snap[sr.SSRC]
		} else {
			lo = 0
		}
		if hi > lo {
			e.Probe("version_window>1")
		}
		matched := false
		var why string
		for v := hi; v >= lo; v-- {
			var wantCount uint32 = uint32(v)
			var wantOct uint32
			if v > 0 {
				wantOct = uint32(st.octets[v-1])
			}
			if sr.PacketCount != wantCount || sr.OctetCount != wantOct {
				if why == "" {
					why = fmt.Sprintf("counts (%d pkts, %d octets) vs expected (%d, %d) at version %d", sr.PacketCount, sr.OctetCount, wantCount, wantOct, v)
				}
				continue
			}
			if v == 0 {
				matched = true // no RTP-time obligation before the first packet
				break
			}
			anchor := st.sendTime[st.refTime[v-1]]
			if anchor.IsZero() {
				// the anchoring write has entered but the library has not sampled its clock yet
				continue
			}
			el := now.Sub(anchor).Seconds() * st.rate
			wantRTP := st.refTS[v-1] + uint32(int64(math.Floor(el)))
			d := int32(sr.RTPTime - wantRTP)
			if d < 0 {
				d = -d
			}
			if d <= 1 {
				matched = true
				if now.Sub(anchor) > time.Hour {
					e.Probe("elapsed>1h")
				}
				break
			}
			why = fmt.Sprintf("RTP time %d, expected %d (reference ts %d sent at %v, report at %v, rate %.0f) at version %d", sr.RTPTime, wantRTP, st.refTS[v-1], anchor.Format("15:04:05.000000"), now.Format("15:04:05.000000"), st.rate, v)
		}
		if !matched {
			sig := "c07:report-mismatch"
			if len(why) > 3 && why[:3] == "RTP" {
				sig = "c07:rtp-time"
			}
			e.Violatef("oracle", sig, "SSRC %d versions[%d..%d]: %s", sr.SSRC, lo, hi, why)
		}
	}
}
