package props

import (
	"bytes"
	"errors"
	"fmt"
	"sort"
	"time"

	"github.com/pion/interceptor"
	"github.com/pion/interceptor/pkg/rfc8888"
	"github.com/pion/rtcp"

	"verif/simrt"
)

// C08: RFC 8888 reports reflect the reception history and respect the size limit.

type c08Cfg struct {
	Interceptor bool `json:"interceptor"`
	IntervalMs  int  `json:"interval_ms"`
	Streams     int  `json:"streams"`
}

type c08Op struct {
	K     string `json:"k"` // a (arrival), b (build; direct), jump
	S     int    `json:"s,omitempty"`
	U     int64  `json:"u,omitempty"`
	AtUs  int64  `json:"at_us"`
	Max   int    `json:"max,omitempty"`
	OffUs int64  `json:"off_us,omitempty"`
	Err   bool   `json:"err,omitempty"`
}

type c08 struct{}

func init() { register(c08{}) }

func (c08) ID() string { return "C08" }

func (c08) Gen(seed int64, tier string, avoid []string) *Plan {
	p, r := newPlan("C08", seed, tier, avoid)
	cfg := c08Cfg{Interceptor: chance(r, 350), IntervalMs: pick(r, 10, 50, 100, 500), Streams: pick(r, 1, 1, 2, 3, 5)}
	n := pick(r, 10, 40, 120, 400)
	if tier == "thorough" {
		n = pick(r, 40, 400, 2000)
	}
	// a long, perfectly in-order history that crosses the sequence wrap (more than 2^15 packets) before the
	// first loss: whatever the stream log remembers about "the last number" must still be right then
	long := !cfg.Interceptor && chance(r, 20)
	if long {
		cfg.Streams = 1
		n = 33000 + r.Intn(3000)
	}
	type arr struct {
		s     int
		u, at int64
	}
	var arrs []arr
	var end int64
	for s := 0; s < cfg.Streams; s++ {
		var u int64
		switch r.Intn(3) {
		case 0:
			u = 65536 - int64(r.Intn(n+1))
		default:
			u = int64(500 + r.Intn(60000))
		}
		dropP := pick(r, 0, 20, 100, 300)
		dupP := pick(r, 0, 0, 40, 150)
		reoP := pick(r, 0, 0, 100, 300)
		spacing := int64(pick(r, 200, 1000, 5000, 20000))
		if long {
			u, spacing = int64(40000+r.Intn(20000)), 200
		}
		at := int64(r.Intn(1000)) + 1
		for i := 0; i < n; i++ {
			at += spacing + int64(r.Intn(int(spacing)))
			if !long && chance(r, 5) {
				at += int64(pick(r, 2_000_000, 9_000_000, 70_000_000))
			}
			cur := u
			u++
			if !long && chance(r, 5) {
				u += int64(pick(r, 3, 50, 700))
			}
			if long && i < n-60 {
				arrs = append(arrs, arr{s, cur, at}) // in order, nothing lost, until the last 60 packets
				continue
			}
			if chance(r, dropP) || (long && i == n-60) {
				continue
			}
			t := at
			if chance(r, reoP) {
				t += int64(r.Intn(8)) * spacing
			}
			arrs = append(arrs, arr{s, cur, t})
			if chance(r, dupP) {
				arrs = append(arrs, arr{s, cur, t + int64(pick(r, 50, 3000, 40_000, 900_000))})
			}
		}
		if at > end {
			end = at
		}
	}
	sort.SliceStable(arrs, func(i, j int) bool { return arrs[i].at < arrs[j].at })
	maxChoices := []int{1200, 1200, 12 + 8*cfg.Streams, 12 + 8*cfg.Streams + 2, 40, 64, 100, 101, 102, 250, 600, 4000, 11, 0}
	var ops []c08Op
	buildP := pick(r, 20, 80, 250)
	for _, a := range arrs {
		o := c08Op{K: "a", S: a.s, U: a.u, AtUs: a.at}
		if cfg.Interceptor && chance(r, 8) {
			o.Err = true
		}
		ops = append(ops, o)
		if long && len(ops)%97 != 0 && a.u < arrs[len(arrs)-1].u-80 {
			continue // (a build every ~100 packets is plenty for 33 000 packets)
		}
		if !cfg.Interceptor && chance(r, buildP) {
			bt := a.at + int64(pick(r, 0, 0, 1, 500, 977, 30_000, 8_100_000))
			if chance(r, 30) {
				bt = a.at - int64(r.Intn(2000)) // report clock behind the arrival clock
			}
			ops = append(ops, c08Op{K: "b", AtUs: bt, Max: maxChoices[r.Intn(len(maxChoices))]})
		}
	}
	if !cfg.Interceptor {
		ops = append(ops, c08Op{K: "b", AtUs: end + 1000, Max: 1200})
	} else if chance(r, 250) {
		for i := r.Intn(2) + 1; i > 0; i-- {
			ops = append(ops, c08Op{K: "jump", AtUs: r.Int63n(end + 1), OffUs: pick(r, int64(-3_000_000), -2000, 1500, 9_000_000)})
		}
		sort.SliceStable(ops, func(i, j int) bool { return ops[i].AtUs < ops[j].AtUs })
	}
	p.Cfg = mustJSON(cfg)
	setOps(p, ops)
	p.LimitMs = end/1000 + 600_000
	return p
}

type c08Arr struct {
	u  int64
	at time.Time // clock value recorded as the arrival
}

type c08Stream struct {
	ssrc     uint32
	arrs     []c08Arr
	last     int64
	first    map[int64]int // unwrapped -> index of first copy in arrs
	hi       []int64       // highest unwrapped after k+1 arrivals
	everRecv map[int64]bool
	next     int64 // first number not yet acknowledged in a gap-free prefix (model)
	nextInit bool
	prevV    int
	track    verTrack
	pend     *int64
}

//go:norace
func (st *c08Stream) add(seq uint16) int {
	var u int64
	if len(st.arrs) == 0 {
		u = int64(seq)
	} else {
		u = st.last + int64(int16(seq-uint16(st.last)))
		if u < 0 {
			u += 65536
		}
	}
	st.last = u
	idx := len(st.arrs)
	st.arrs = append(st.arrs, c08Arr{u: u})
	if _, ok := st.first[u]; !ok {
		st.first[u] = idx
	}
	hi := u
	if idx > 0 && st.hi[idx-1] > hi {
		hi = st.hi[idx-1]
	}
	st.hi = append(st.hi, hi)
	return idx
}

func c08ATO(now, arrival time.Time) (want uint16, slack bool) {
	d := now.Sub(arrival)
	if d < 0 {
		return 0x1FFF, false
	}
	// floor(1024 * seconds) by exact integer arithmetic
	ns := int64(d)
	sec, rem := ns/1_000_000_000, ns%1_000_000_000
	v := sec*1024 + rem*1024/1_000_000_000
	exact := rem*1024%1_000_000_000 == 0
	if v > 0x1FFD {
		return 0x1FFE, false
	}
	return uint16(v), exact && v > 0
}

// checkBlock validates one report block against the first v arrivals of the stream.
//
//go:norace
func (st *c08Stream) checkBlock(e *Env, blk ccfbBlock, now time.Time, v int, share int) (sig, msg string, newNext int64) {
	newNext = st.next
	if v == 0 {
		if len(blk.Metrics) != 0 {
			return "block-without-arrivals", fmt.Sprintf("SSRC %d: %d metric blocks although nothing arrived", st.ssrc, len(blk.Metrics)), newNext
		}
		return "", "", newNext
	}
	next := st.next
	if !st.nextInit {
		next = st.arrs[0].u
	}
	hi := st.hi[v-1]
	if len(blk.Metrics) == 0 {
		// legitimate when nothing unacknowledged is outstanding, or when the whole
		// outstanding range is pushed out by the size limit (share of at most one report)
		outstanding := false
		for idx := 0; idx < v; idx++ {
			u := st.arrs[idx].u
			if u >= next && st.first[u] == idx {
				outstanding = true
				if share-1 > 0 {
					return "unreported-arrival", fmt.Sprintf("SSRC %d: seq %d arrived and is not yet acknowledged, but the block is empty (share %d)", st.ssrc, uint16(u), share), newNext
				}
			}
		}
		if outstanding {
			e.Probe("truncated_by_size")
			return "", "", hi + 1
		}
		return "", "", newNext
	}
	n := int64(len(blk.Metrics))
	ub := hi - int64(int16(uint16(hi)-blk.Begin))
	if ub+n-1 != hi {
		return "range-end", fmt.Sprintf("SSRC %d: range [%d..%d] does not end at the highest received seq %d", st.ssrc, blk.Begin, blk.Begin+uint16(n-1), uint16(hi)), newNext
	}
	if ub < next {
		return "range-begin", fmt.Sprintf("SSRC %d: range begins at %d, before the first unacknowledged number %d", st.ssrc, blk.Begin, uint16(next)), newNext
	}
	if ub > next {
		// numbers next..ub-1 omitted: allowed only as truncation by the size limit (newest kept)
		if n < int64(share)-1 {
			return "omitted-without-truncation", fmt.Sprintf("SSRC %d: numbers %d..%d are unacknowledged but omitted although the block holds only %d of its share of %d reports", st.ssrc, uint16(next), uint16(ub-1), n, share), newNext
		}
		e.Probe("truncated_by_size")
	}
	for i, mb := range blk.Metrics {
		u := ub + int64(i)
		idx, ok := st.first[u]
		arrived := ok && idx < v
		if mb.Received != arrived {
			if !mb.Received && st.everRecv[u] {
				return "received-then-lost", fmt.Sprintf("SSRC %d: seq %d was reported received earlier and is now reported lost", st.ssrc, mb.Seq), newNext
			}
			if mb.Received {
				return "received-without-arrival", fmt.Sprintf("SSRC %d: seq %d marked received but it has not arrived", st.ssrc, mb.Seq), newNext
			}
			return "arrived-marked-lost", fmt.Sprintf("SSRC %d: seq %d arrived (arrival #%d of %d) but is marked not received", st.ssrc, mb.Seq, idx, v), newNext
		}
		if mb.Received {
			want, slack := c08ATO(now, st.arrs[idx].at)
			if mb.ATO != want && !(slack && mb.ATO == want-1) {
				k := "ato"
				switch want {
				case 0x1FFE:
					k = "ato-saturation"
				case 0x1FFF:
					k = "ato-after-report"
				}
				later := ""
				for j := idx + 1; j < v; j++ {
					if st.arrs[j].u == u {
						if w2, _ := c08ATO(now, st.arrs[j].at); w2 == mb.ATO {
							later = " (it matches a later duplicate's arrival)"
							k = "ato-duplicate-overwrites-first-copy"
						}
					}
				}
				return k, fmt.Sprintf("SSRC %d: seq %d arrival-time offset %#x, expected %#x = floor(1024*(report %v - first arrival %v))%s", st.ssrc, mb.Seq, mb.ATO, want, now.Format("15:04:05.000000000"), st.arrs[idx].at.Format("15:04:05.000000000"), later), newNext
			}
		} else if mb.ATO != 0 || mb.ECN != 0 {
			return "lost-with-fields", fmt.Sprintf("SSRC %d: seq %d not received but ATO/ECN non-zero", st.ssrc, mb.Seq), newNext
		}
	}
	// acknowledged gap-free prefix
	newNext = ub
	for i := range blk.Metrics {
		if !blk.Metrics[i].Received {
			break
		}
		newNext = ub + int64(i) + 1
	}
	return "", "", newNext
}

// c08Held models an RTCP writer that queues what it is given: the report handed over earlier must still
// marshal to the same bytes after the next report has been built.
type c08Held struct {
	rep *rtcp.CCFeedbackReport
	raw []byte
}

//go:norace
func c08HeldNext(h *c08Held, e *Env, rep *rtcp.CCFeedbackReport, raw []byte) { h.next(e, rep, raw) }

func (h *c08Held) next(e *Env, rep *rtcp.CCFeedbackReport, raw []byte) {
	if h.rep != nil {
		e.Check()
		again, err := h.rep.Marshal()
		if err != nil || !bytes.Equal(again, h.raw) {
			e.Violatef("oracle", "c08:earlier-report-modified", "a report the writer still holds changed when the next report was built: it marshalled to %x, now to %x (%v)", h.raw, again, err)
		}
	}
	h.rep, h.raw = rep, append([]byte{}, raw...)
}

//go:norace
func c08Check(e *Env, streams map[uint32]*c08Stream, order []*c08Stream, raw []byte, now time.Time, maxSize int, lo map[uint32]int) {
	e.Check()
	d, err := decodeCCFB(raw)
	if err != nil {
		e.Violatef("oracle", "c08:wire-form", "independent decoder rejects the report: %v (%x)", err, raw)
		return
	}
	var back rtcp.CCFeedbackReport
	if err := back.Unmarshal(raw); err != nil {
		e.Violatef("oracle", "c08:parse-back", "report does not parse back: %v", err)
		return
	}
	if len(back.ReportBlocks) != len(d.Blocks) {
		e.Violatef("oracle", "c08:parse-back", "pion parses %d blocks, independent decoder %d", len(back.ReportBlocks), len(d.Blocks))
		return
	}
	known := 0
	for _, st := range order {
		if st.track.inner > 0 {
			known++
		}
	}
	if maxSize >= 12+8*len(d.Blocks) && len(raw) > maxSize {
		e.Violatef("oracle", "c08:size-limit", "report is %d bytes for a maximum of %d (%d streams)", len(raw), maxSize, len(d.Blocks))
	}
	share := 0
	if k := len(d.Blocks); k > 0 {
		share = (maxSize - 12 - 8*k) / (2 * k)
		if share < 0 {
			share = 0
		}
	}
	seen := map[uint32]bool{}
	for bi, blk := range d.Blocks {
		pb := back.ReportBlocks[bi]
		if pb.MediaSSRC != blk.SSRC || pb.BeginSequence != blk.Begin || len(pb.MetricBlocks) != len(blk.Metrics) {
			e.Violatef("oracle", "c08:parse-back", "block %d: pion parse disagrees with the independent decoder", bi)
			return
		}
		st := streams[blk.SSRC]
		if st == nil {
			e.Violatef("oracle", "c08:unknown-ssrc", "block for unknown SSRC %d", blk.SSRC)
			continue
		}
		if seen[blk.SSRC] {
			e.Violatef("oracle", "c08:duplicate-block", "two blocks for SSRC %d", blk.SSRC)
			continue
		}
		seen[blk.SSRC] = true
		hi := st.track.inner
		l := hi
		if lo != nil {
			l = lo[blk.SSRC]
		}
		var fsig, fmsg string
		okv := false
		for v := hi; v >= l; v-- {
			if v > 0 && st.arrs[v-1].at.IsZero() {
				continue // arrival clock not sampled yet: the library cannot have it
			}
			sig, msg, nn := st.checkBlock(e, blk, now, v, share)
			if sig == "" {
				okv = true
				for i, mb := range blk.Metrics {
					if mb.Received {
						_ = i
						ub := st.hi[v-1] - int64(int16(uint16(st.hi[v-1])-blk.Begin))
						st.everRecv[ub+int64(i)] = true
					}
				}
				if v > 0 {
					st.next, st.nextInit = nn, true
				}
				st.prevV = v
				break
			}
			if fsig == "" {
				fsig, fmsg = sig, msg
			}
		}
		if !okv && fsig != "" {
			e.Violatef("oracle", "c08:"+fsig, "arrivals[%d..%d] max=%d: %s", l, hi, maxSize, fmsg)
			// resynchronise: acknowledge what the block says
			if n := len(blk.Metrics); n > 0 && hi > 0 {
				ub := st.hi[hi-1] - int64(int16(uint16(st.hi[hi-1])-blk.Begin))
				nn := ub
				for i := range blk.Metrics {
					if !blk.Metrics[i].Received {
						break
					}
					nn = ub + int64(i) + 1
				}
				st.next, st.nextInit = nn, true
			}
		}
	}
}

func (c08) Run(e *Env) {
	cfg := cfgOf[c08Cfg](e.Plan)
	ops := opsOf[c08Op](e.Plan)
	e.SetSample(fmt.Sprintf("interceptor=%v interval=%dms streams=%d ops=%d", cfg.Interceptor, cfg.IntervalMs, cfg.Streams, len(ops)))
	streams := map[uint32]*c08Stream{}
	held := &c08Held{}
	var order []*c08Stream
	for s := 0; s < cfg.Streams; s++ {
		st := &c08Stream{ssrc: uint32(300 + s), first: map[int64]int{}, everRecv: map[int64]bool{}}
		streams[st.ssrc] = st
		order = append(order, st)
	}
	epoch := time.Now()
	if !cfg.Interceptor {
		rec := rfc8888.NewRecorder()
		for _, o := range ops {
			switch o.K {
			case "a":
				if o.S >= len(order) {
					continue
				}
				st := order[o.S]
				at := epoch.Add(us(o.AtUs))
				if n := len(st.arrs); n > 0 {
					if _, dup := st.first[st.last+int64(int16(uint16(o.U)-uint16(st.last)))]; dup {
						e.Fault("dup")
					}
				}
				rec.AddPacket(at, st.ssrc, uint16(o.U), 0)
				idx := st.add(uint16(o.U))
				st.arrs[idx].at = at
				st.track.inner++
			case "b":
				now := epoch.Add(us(o.AtUs))
				rep := rec.BuildReport(now, o.Max)
				if rep == nil {
					continue
				}
				raw, err := rep.Marshal()
				if err != nil {
					e.Violatef("oracle", "c08:marshal", "report does not marshal: %v", err)
					continue
				}
				c08Check(e, streams, order, raw, now, o.Max, nil)
				held.next(e, rep, raw)
			}
		}
		return
	}
	// interceptor path
	type jump struct{ at, off time.Duration }
	var jumps []jump
	for _, o := range ops {
		if o.K == "jump" {
			jumps = append(jumps, jump{us(o.AtUs), us(o.OffUs)})
			e.Fault("clock_jump")
		}
	}
	lastNow := map[int]time.Time{}
	hooks := map[int]func(time.Time){}
	clock := func() time.Time {
		el := e.S.Now()
		var off time.Duration
		for _, j := range jumps {
			if el >= j.at {
				off = j.off
			}
		}
		t := time.Now().Add(off)
		c07Record(lastNow, hooks, t)
		return t
	}
	f, _ := rfc8888.NewSenderInterceptor(rfc8888.SenderNow(clock), rfc8888.SendInterval(time.Duration(cfg.IntervalMs)*time.Millisecond), rfc8888.WithLoggerFactory(nopLoggerFactory{}))
	ic, err := f.NewInterceptor("")
	if err != nil {
		e.Violatef("oracle", "c08:construct", "%v", err)
		return
	}
	wake := map[int]map[uint32]int{}
	e.S.OnRelease = func(g *simrt.G, woke bool) {
		if woke && !g.App {
			m := map[uint32]int{}
			for ssrc, st := range streams {
				m[ssrc] = st.track.outer
			}
			wake[g.ID] = m
		}
	}
	ic.BindRTCPWriter(interceptor.RTCPWriterFunc(func(pkts []rtcp.Packet, _ interceptor.Attributes) (int, error) {
		g := simrt.Cur()
		for _, pkt := range pkts {
			rep, ok := pkt.(*rtcp.CCFeedbackReport)
			if !ok {
				e.Violatef("oracle", "c08:foreign-rtcp", "rfc8888 interceptor wrote %T", pkt)
				continue
			}
			raw, err := rep.Marshal()
			if err != nil {
				e.Violatef("oracle", "c08:marshal", "report does not marshal: %v", err)
				continue
			}
			lo := wake[g.ID]
			if lo == nil {
				lo = map[uint32]int{}
			}
			c08Check(e, streams, order, raw, lastNow[g.ID], 1200, lo)
			c08HeldNext(held, e, rep, raw)
		}
		return 0, nil
	}))
	var cur c08Op
	var lastErr bool
	readers := make([]interceptor.RTPReader, cfg.Streams)
	for s, st := range order {
		st := st
		readers[s] = ic.BindRemoteStream(streamInfo(st.ssrc, 96, 90000, "ccfb"), interceptor.RTPReaderFunc(func(b []byte, a interceptor.Attributes) (int, interceptor.Attributes, error) {
			simrt.SleepUntil(us(cur.AtUs))
			if cur.Err {
				lastErr = true
				e.Fault("reader_err")
				return 0, nil, errInjected
			}
			lastErr = false
			c08Arrive(st, hooks, uint16(cur.U))
			return copy(b, rtpBytes(st.ssrc, 96, uint16(cur.U), 0, 5)), a, nil
		}))
	}
	rd := e.Go("reader", func() {
		buf := make([]byte, 1500)
		for _, o := range ops {
			if o.K != "a" || o.S >= cfg.Streams {
				continue
			}
			cur = o
			_, _, err := readers[o.S].Read(buf, interceptor.Attributes{})
			if err != nil && !errors.Is(err, errInjected) {
				e.Violatef("oracle", "c08:read-error", "%v", err)
			}
			if !lastErr {
				c08Returned(order[o.S], hooks)
			}
		}
	})
	if !e.WaitTimeout(time.Duration(e.Plan.LimitMs)*time.Millisecond/2, rd) {
		return
	}
	simrt.Sleep(time.Duration(2*cfg.IntervalMs+5) * time.Millisecond)
	ic.Close()
}

//go:norace
func c08Arrive(st *c08Stream, hooks map[int]func(time.Time), seq uint16) {
	idx := st.add(seq)
	st.track.inner++
	hooks[simrt.Cur().ID] = func(t time.Time) {
		if st.arrs[idx].at.IsZero() {
			st.arrs[idx].at = t
		}
	}
}

//go:norace
func c08Returned(st *c08Stream, hooks map[int]func(time.Time)) {
	st.track.outer++
	hooks[simrt.Cur().ID] = nil
}
