package props

import (
	"fmt"
	"math/rand"
	"sort"
	"time"

	"github.com/pion/interceptor"
	"github.com/pion/interceptor/pkg/rfc8888"
	"github.com/pion/interceptor/pkg/rtpfb"
	"github.com/pion/interceptor/pkg/twcc"
	"github.com/pion/interceptor/pkg/xverif"
	"github.com/pion/rtcp"
	"github.com/pion/rtp"

	"verif/simrt"
)

// C09: feedback decoding attributes each acknowledgement to the right sent packet.
// Sender side: the rtpfb interceptor, or the congestion controller's feedback
// adapter.  Receiver side: the library's own TWCC / RFC 8888 recorders fed
// through a lossy, duplicating, reordering path, plus a forging receiver that
// re-encodes the same information in every well-formed chunk layout.

type c09Cfg struct {
	Target  string `json:"target"` // rtpfb | adapter
	TWCC    bool   `json:"twcc"`   // transport-cc (shared numbers) or RFC 8888 (per-SSRC numbers)
	Streams int    `json:"streams"`
	Seq0    uint16 `json:"seq0"`
	BaseUs  int64  `json:"base_us"` // how long the receiver has been running (reference-time magnitude)
	NoTWCC  []bool `json:"no_twcc"` // transport-cc session: streams that did not negotiate the extension
}

type c09Op struct {
	K       string `json:"k"` // s (send), f (feedback)
	S       int    `json:"s,omitempty"`
	AtUs    int64  `json:"at_us"`
	HS      int64  `json:"hs,omitempty"`
	Len     int    `json:"len,omitempty"`
	Fate    int    `json:"fate,omitempty"`  // 0 arrives, 1 lost, 2 duplicated
	Delay   int64  `json:"delay,omitempty"` // path delay (us)
	Forge   int    `json:"forge,omitempty"` // 0 as generated, 1 re-encoded layout, 2 with overrun/padded chunks, 3 delivered twice, 4 held back and delivered after the next feedback (reordered), 5 delivered twice at the same time on two RTCP readers
	LaySeed int64  `json:"lay,omitempty"`
	FastFb  bool   `json:"fast_fb,omitempty"` // send: feedback about this packet arrives while the next writer has not yet returned
}

type c09 struct{}

func init() { register(c09{}) }

func (c09) ID() string { return "C09" }

func (c09) Gen(seed int64, tier string, avoid []string) *Plan {
	p, r := newPlan("C09", seed, tier, avoid)
	avoidSet := map[string]bool{}
	for _, a := range avoid {
		avoidSet[a] = true
	}
	cfg := c09Cfg{Target: pick(r, "rtpfb", "adapter"), TWCC: chance(r, 600), Streams: pick(r, 1, 2, 3), Seq0: uint16(pick(r, 0, 65500, r.Intn(65536)))}
	if avoidSet["c09-adapter"] {
		cfg.Target = "rtpfb"
	}
	if avoidSet["c09-rtpfb"] {
		cfg.Target = "adapter"
	}
	cfg.BaseUs = pick(r, int64(0), 0, 3_600_000_000, 5*3_600_000_000, 290*3_600_000_000)
	for i := 0; i < cfg.Streams; i++ {
		cfg.NoTWCC = append(cfg.NoTWCC, cfg.TWCC && cfg.Target == "rtpfb" && i > 0 && chance(r, 400))
	}
	n := pick(r, 10, 40, 120, 400)
	if tier == "thorough" {
		n = pick(r, 40, 400, 1500)
	}
	lossP := pick(r, 0, 50, 300)
	dupP := pick(r, 0, 0, 100)
	fbP := pick(r, 20, 100, 300)
	var ops []c09Op
	at := int64(1000)
	for i := 0; i < n; i++ {
		at += int64(pick(r, 200, 1000, 5000))
		o := c09Op{K: "s", S: r.Intn(cfg.Streams), AtUs: at, HS: r.Int63(), Len: pick(r, 0, 50, 1200), Delay: int64(1000 + r.Intn(30000))}
		o.FastFb = cfg.Target == "rtpfb" && chance(r, 40)
		if chance(r, lossP) {
			o.Fate = 1
		} else if chance(r, dupP) {
			o.Fate = 2
		}
		ops = append(ops, o)
		if chance(r, fbP) {
			f := c09Op{K: "f", AtUs: at + int64(r.Intn(20000)), Forge: pick(r, 0, 0, 1, 1, 2, 3, 4, 5), LaySeed: r.Int63()}
			if avoidSet["c09-forged-overrun"] && f.Forge == 2 {
				f.Forge = 1
			}
			ops = append(ops, f)
		}
	}
	ops = append(ops, c09Op{K: "f", AtUs: at + 60000, LaySeed: r.Int63()})
	sort.SliceStable(ops, func(i, j int) bool { return ops[i].AtUs < ops[j].AtUs })
	p.Cfg = mustJSON(cfg)
	setOps(p, ops)
	return p
}

type c09Sent struct {
	ssrc      uint32
	seq       uint16 // RTP sequence number
	tseq      uint16 // transport-wide number (TWCC)
	size      int    // header + payload
	payload   int
	departure time.Time
	order     int
	reported  int
	// the latest feedback entry that addressed this packet
	addressed bool
	arrived   bool
	arrival   time.Time
	arrKnown  bool
	ecn       uint8
}

type c09Enc struct {
	recv     bool
	arrival  time.Time
	arrKnown bool
	ecn      uint8
}

type c09Arrival struct {
	at   int64
	sent *c09Sent
}

func (c09) Run(e *Env) {
	cfg := cfgOf[c09Cfg](e.Plan)
	ops := opsOf[c09Op](e.Plan)
	e.SetSample(fmt.Sprintf("target=%s twcc=%v streams=%d ops=%d", cfg.Target, cfg.TWCC, cfg.Streams, len(ops)))
	epoch := time.Now()
	const extID = 5
	// ---- sender side
	var adapter *xverif.FeedbackAdapter
	var writers []interceptor.RTPWriter
	var rtcpR interceptor.RTCPReader
	var rtcpIn []byte
	if cfg.Target == "adapter" {
		adapter = xverif.NewFeedbackAdapter()
	} else {
		f, _ := rtpfb.NewInterceptor(rtpfb.WithLoggerFactory(nopLoggerFactory{}))
		ic, err := f.NewInterceptor("")
		if err != nil {
			e.Violatef("oracle", "c09:construct", "%v", err)
			return
		}
		for s := 0; s < cfg.Streams; s++ {
			info := streamInfo(uint32(700+s), 96, 90000)
			if cfg.TWCC && !cfg.NoTWCC[s] {
				info.RTPHeaderExtensions = []interceptor.RTPHeaderExtension{{URI: twccURI, ID: extID}}
			}
			writers = append(writers, ic.BindLocalStream(info, interceptor.RTPWriterFunc(func(h *rtp.Header, pl []byte, a interceptor.Attributes) (int, error) {
				if st, ok := a.Get("c09stall").(int64); ok {
					simrt.Sleep(us(st)) // the packet is on the wire, the transport has not returned yet
				}
				return len(pl), nil
			})))
		}
		rtcpR = ic.BindRTCPReader(interceptor.RTCPReaderFunc(func(b []byte, a interceptor.Attributes) (int, interceptor.Attributes, error) {
			if raw, ok := a.Get("c09raw").([]byte); ok {
				return copy(b, raw), a, nil
			}
			return copy(b, rtcpIn), a, nil
		}))
	}
	// ---- receiver side: the library's own generators
	twRec := twcc.NewRecorder(4242)
	ccRec := rfc8888.NewRecorder()
	var sent []*c09Sent
	byT := map[uint16]*c09Sent{}    // latest packet per transport-wide number
	byS := map[[2]uint32]*c09Sent{} // latest packet per (ssrc, rtp seq)
	var pending []c09Arrival
	seqs := make([]uint16, cfg.Streams)
	for i := range seqs {
		seqs[i] = cfg.Seq0 + uint16(i)*1000
	}
	tseq := cfg.Seq0
	lastOrder := -1
	buf := make([]byte, 1500)
	var held [][]byte
	for _, o := range ops {
		simrt.SleepUntil(us(o.AtUs))
		now := time.Now()
		switch o.K {
		case "s":
			s := o.S % cfg.Streams
			ssrc := uint32(700 + s)
			h := hdrFromSeed(o.HS, ssrc, 96, seqs[s], uint32(seqs[s])*3000, extID)
			useTWCC := cfg.TWCC && !(len(cfg.NoTWCC) > s && cfg.NoTWCC[s])
			if useTWCC {
				ext, _ := (&rtp.TransportCCExtension{TransportSequence: tseq}).Marshal()
				if err := h.SetExtension(extID, ext); err != nil {
					h.Extensions, h.Extension, h.ExtensionProfile = nil, false, 0
					_ = h.SetExtension(extID, ext)
				}
			}
			pl := payloadFromSeed(o.HS, o.Len)
			ps := &c09Sent{ssrc: ssrc, seq: seqs[s], tseq: tseq, size: h.MarshalSize() + len(pl), payload: len(pl), departure: now, order: len(sent)}
			sent = append(sent, ps)
			if useTWCC {
				byT[tseq] = ps
			}
			byS[[2]uint32{ssrc, uint32(seqs[s])}] = ps
			seqs[s]++
			if useTWCC {
				tseq++
			} else if cfg.TWCC {
				ps.tseq = 0
				o.Fate = 1 // the transport-cc receiver cannot acknowledge it
				e.Probe("mixed_twcc_and_plain_streams")
			}
			if adapter != nil {
				attrs := interceptor.Attributes{}
				if cfg.TWCC {
					attrs.Set(xverif.TwccExtensionAttributesKey, uint8(extID))
				}
				if err := adapter.OnSent(now, h, len(pl), attrs); err != nil {
					e.Violatef("oracle", "c09:onsent", "%v", err)
				}
			} else if o.FastFb && !(cfg.TWCC && !useTWCC) {
				// fast feedback: the peer acknowledges the packet while our Write is still inside the transport
				e.Fault("feedback_before_write_returned")
				g := e.Go("stalled-writer", func() { writers[s].Write(h, pl, interceptor.Attributes{"c09stall": int64(2000)}) })
				simrt.Sleep(time.Millisecond)
				var raw []byte
				if cfg.TWCC {
					rcv := cfg.BaseUs + o.AtUs + 1000
					raw = encodeTWCC(4242, ssrc, ps.tseq, uint32(rcv/64000)&0xFFFFFF, 0, []twccSym{{Recv: true, DeltaUs: rcv % 64000 / 250 * 250}}, rand.New(rand.NewSource(o.HS)), false)
				} else {
					raw = encodeCCFB(4242, []ccfbIn{{SSRC: ssrc, Begin: ps.seq, Metrics: []ccfbMetric{{Seq: ps.seq, Received: true, ATO: 1}}}}, c16NTP(time.Now()))
				}
				c09Deliver(e, cfg, adapter, rtcpR, &rtcpIn, buf, raw, time.Now(), byT, byS, &lastOrder)
				e.Wait(g)
			} else {
				writers[s].Write(h, pl, interceptor.Attributes{})
			}
			switch o.Fate {
			case 0:
				pending = append(pending, c09Arrival{o.AtUs + o.Delay, ps})
			case 2:
				pending = append(pending, c09Arrival{o.AtUs + o.Delay, ps}, c09Arrival{o.AtUs + o.Delay + 700, ps})
				e.Fault("dup")
			default:
				e.Fault("drop")
			}
			if len(sent)-lastFed(sent) > 250 {
				e.Probe("history_overflow")
			}
		case "f":
			// everything that has arrived by now reaches the receiver's recorder, in arrival order
			sort.SliceStable(pending, func(i, j int) bool { return pending[i].at < pending[j].at })
			k := 0
			for k < len(pending) && pending[k].at <= o.AtUs {
				a := pending[k]
				if cfg.TWCC {
					twRec.Record(a.sent.ssrc, a.sent.tseq, cfg.BaseUs+a.at)
				} else {
					ccRec.AddPacket(epoch.Add(us(a.at)), a.sent.ssrc, a.sent.seq, 0)
				}
				k++
			}
			pending = pending[k:]
			var raws [][]byte
			if cfg.TWCC {
				for _, p := range twRec.BuildFeedbackPacket() {
					if b, err := p.Marshal(); err == nil {
						raws = append(raws, b)
					}
				}
			} else if rep := ccRec.BuildReport(now, 1200); rep != nil && len(rep.ReportBlocks) > 0 {
				if b, err := rep.Marshal(); err == nil {
					raws = append(raws, b)
				}
			}
			for _, raw := range raws {
				if !cfg.TWCC && o.Forge > 0 {
					// forge: same ranges, but ECN marks and "arrival unavailable" offsets as a peer may send them
					if d, err := decodeCCFB(raw); err == nil {
						fr := rand.New(rand.NewSource(o.LaySeed))
						var blocks []ccfbIn
						for _, b := range d.Blocks {
							nb := ccfbIn{SSRC: b.SSRC, Begin: b.Begin}
							for _, m := range b.Metrics {
								if m.Received {
									m.ECN = uint8(fr.Intn(4))
									if fr.Intn(4) == 0 {
										m.ATO = uint16(pick(fr, 0x1FFF, 0x1FFE, 0))
									}
								}
								nb.Metrics = append(nb.Metrics, m)
							}
							blocks = append(blocks, nb)
						}
						raw = encodeCCFB(d.SenderSSRC, blocks, d.Timestamp)
						e.Fault("forged_ccfb_ecn")
					}
				}
				if cfg.TWCC && o.Forge > 0 {
					if d, err := decodeTWCC(raw); err == nil {
						syms := make([]twccSym, len(d.Status))
						for i, st := range d.Status {
							syms[i] = twccSym{Recv: st.Received, DeltaUs: st.DeltaUs}
						}
						raw = encodeTWCC(d.SenderSSRC, d.MediaSSRC, d.Base, d.RefTime, d.FbCount, syms, rand.New(rand.NewSource(o.LaySeed)), o.Forge == 2)
						e.Fault(fmt.Sprintf("forged_layout_%d", o.Forge))
					}
				}
				times := 1
				if o.Forge == 3 || (o.Forge == 5 && adapter != nil) {
					times = 2
					e.Fault("feedback_duplicated")
				}
				if o.Forge == 4 {
					// the path reorders feedback: this one is overtaken by the next
					held = append(held, raw)
					e.Fault("feedback_reordered")
					continue
				}
				if o.Forge == 5 && adapter == nil {
					e.Fault("feedback_on_two_readers_at_once")
					// (two *different* feedbacks at once would make the expected statuses depend on which is applied
					// first, which cannot be observed; the unsynchronised variant of that is C10's business)
					c09DeliverPair(e, cfg, rtcpR, raw, nil, byT, byS, &lastOrder)
					continue
				}
				for t := 0; t < times; t++ {
					c09Deliver(e, cfg, adapter, rtcpR, &rtcpIn, buf, raw, now, byT, byS, &lastOrder)
				}
			}
			if o.Forge != 4 {
				for _, raw := range held {
					c09Deliver(e, cfg, adapter, rtcpR, &rtcpIn, buf, raw, now, byT, byS, &lastOrder)
				}
				held = nil
			}
		}
	}
}

func lastFed(sent []*c09Sent) int {
	for i := len(sent) - 1; i >= 0; i-- {
		if sent[i].addressed {
			return i
		}
	}
	return 0
}

// c09Deliver hands one feedback packet to the sender side and checks what comes out.
// c09DeclareX decodes a feedback independently: which packets it addresses and with what status.
func c09DeclareX(e *Env, cfg c09Cfg, raw []byte, byT map[uint16]*c09Sent, byS map[[2]uint32]*c09Sent) (map[*c09Sent]c09Enc, map[uint16]bool, map[[2]uint32]bool, bool) {
	e.Check()
	// independent decode: what does the feedback encode, and for which numbers?
	declared := map[*c09Sent]c09Enc{}
	inRange := map[uint16]bool{}     // TWCC numbers inside the declared range
	inRangeS := map[[2]uint32]bool{} // (ssrc, seq) inside a declared range
	if cfg.TWCC {
		d, err := decodeTWCC(raw)
		if err != nil {
			e.Violatef("oracle", "c09:generator-wire-form", "feedback from the library's generator / forger does not decode: %v", err)
			return nil, nil, nil, false
		}
		for _, st := range d.Status {
			inRange[st.Seq] = true
			if ps := byT[st.Seq]; ps != nil {
				en := c09Enc{recv: st.Received, arrKnown: true}
				if st.Received {
					en.arrival = time.Time{}.Add(time.Duration(st.TimeUs) * time.Microsecond)
				}
				declared[ps] = en
			}
		}
	} else {
		d, err := decodeCCFB(raw)
		if err != nil {
			e.Violatef("oracle", "c09:generator-wire-form", "feedback from the library's generator does not decode: %v", err)
			return nil, nil, nil, false
		}
		for _, blk := range d.Blocks {
			for _, m := range blk.Metrics {
				key := [2]uint32{blk.SSRC, uint32(m.Seq)}
				inRangeS[key] = true
				if ps := byS[key]; ps != nil {
					declared[ps] = c09Enc{recv: m.Received, ecn: m.ECN, arrKnown: false}
				}
			}
		}
	}
	for ps, en := range declared {
		ps.addressed, ps.arrived, ps.arrival, ps.arrKnown, ps.ecn = true, en.recv, en.arrival, en.arrKnown, en.ecn
	}
	return declared, inRange, inRangeS, true
}

func c09Declare(e *Env, cfg c09Cfg, raw []byte, byT map[uint16]*c09Sent, byS map[[2]uint32]*c09Sent) bool {
	_, _, _, ok := c09DeclareX(e, cfg, raw, byT, byS)
	return ok
}

func c09Deliver(e *Env, cfg c09Cfg, adapter *xverif.FeedbackAdapter, rtcpR interceptor.RTCPReader, rtcpIn *[]byte, buf, raw []byte, now time.Time,
	byT map[uint16]*c09Sent, byS map[[2]uint32]*c09Sent, lastOrder *int) {
	declared, inRange, inRangeS, ok := c09DeclareX(e, cfg, raw, byT, byS)
	if !ok {
		return
	}
	if adapter != nil {
		pkts, err := rtcp.Unmarshal(raw)
		if err != nil || len(pkts) != 1 {
			e.Violatef("oracle", "c09:parse", "pion/rtcp does not parse the feedback: %v", err)
			return
		}
		var acks []xverif.Acknowledgment
		switch fb := pkts[0].(type) {
		case *rtcp.TransportLayerCC:
			acks, err = adapter.OnTransportCCFeedback(now, fb)
			if err != nil {
				// rejected as a whole (a run length beyond the status count needs deltas that do not exist):
				// no acknowledgement results, so the statement is not engaged
				e.Probe("feedback_rejected")
				return
			}
		case *rtcp.CCFeedbackReport:
			acks = adapter.OnRFC8888Feedback(now, fb)
		}
		for _, a := range acks {
			var ps *c09Sent
			if cfg.TWCC {
				if !inRange[a.SequenceNumber] && !(a.Size == 0 && a.Departure.IsZero()) {
					e.Violatef("oracle", "c09:adapter:beyond-status-count", "acknowledgement for transport number %d, which is outside the range the feedback declares", a.SequenceNumber)
					continue
				}
				ps = byT[a.SequenceNumber]
			} else {
				ps = byS[[2]uint32{a.SSRC, uint32(a.SequenceNumber)}]
				if !inRangeS[[2]uint32{a.SSRC, uint32(a.SequenceNumber)}] {
					e.Violatef("oracle", "c09:adapter:outside-declared-range", "acknowledgement for SSRC %d seq %d, which no report block declares", a.SSRC, a.SequenceNumber)
					continue
				}
			}
			if a.Size == 0 && a.Departure.IsZero() && a.Arrival.IsZero() && (ps == nil || ps.size != 0) {
				e.Violatef("oracle", "c09:adapter:ack-for-unknown-packet", "a zero-valued acknowledgement (no size, no departure) was returned for a number the sender has no record of")
				continue
			}
			if ps == nil {
				e.Violatef("oracle", "c09:adapter:ack-for-never-sent", "acknowledgement names number %d (SSRC %d) which was never sent", a.SequenceNumber, a.SSRC)
				continue
			}
			if !a.Departure.Equal(ps.departure) || (a.Size != ps.size && a.Size != ps.payload) {
				e.Violatef("oracle", "c09:adapter:wrong-packet-data", "acknowledgement for number %d carries size %d departure %v, the packet was sent with size %d (payload %d) at %v", a.SequenceNumber, a.Size, a.Departure, ps.size, ps.payload, ps.departure)
				continue
			}
			en := declared[ps]
			gotRecv := !a.Arrival.IsZero()
			if cfg.TWCC {
				if gotRecv != en.recv || (en.recv && !a.Arrival.Equal(en.arrival)) {
					e.Violatef("oracle", "c09:adapter:arrival-misattributed", "number %d: the feedback encodes received=%v arrival=%v, the acknowledgement says arrival=%v (independent of which neighbours are still in the history)", a.SequenceNumber, en.recv, en.arrival.Sub(time.Time{}), a.Arrival.Sub(time.Time{}))
				}
			} else if gotRecv != en.recv || (en.recv && uint8(a.ECN) != en.ecn) {
				e.Violatef("oracle", "c09:adapter:status-misattributed", "SSRC %d seq %d: the feedback encodes received=%v ecn=%d, the acknowledgement says received=%v ecn=%d", a.SSRC, a.SequenceNumber, en.recv, en.ecn, gotRecv, a.ECN)
			}
			e.Probe("ack_checked")
		}
		return
	}
	// rtpfb: the aggregating receiver
	*rtcpIn = raw
	_, attr, err := rtcpR.Read(buf, interceptor.Attributes{})
	if err != nil {
		e.Violatef("oracle", "c09:rtpfb:read-error", "%v", err)
		return
	}
	rep, _ := attr.Get(rtpfb.CCFBAttributesKey).(rtpfb.Report)
	c09CheckReport(e, cfg, rep, byS, lastOrder)
}

// c09DeliverPair hands the same feedback to two RTCP readers of the rtpfb interceptor at the same instant
// (RTCP readers of different streams run on different goroutines) and checks both reports.
func c09DeliverPair(e *Env, cfg c09Cfg, rtcpR interceptor.RTCPReader, raw, other []byte, byT map[uint16]*c09Sent, byS map[[2]uint32]*c09Sent, lastOrder *int) {
	// the second reader gets an earlier feedback if the two do not contradict each other about any packet
	// (which one is applied last is not observable), otherwise the same one
	raws := [2][]byte{raw, raw}
	if other != nil {
		if dOther, _, _, ok := c09DeclareX(e, cfg, other, byT, byS); ok {
			if dRaw, _, _, ok2 := c09DeclareX(e, cfg, raw, byT, byS); ok2 {
				conflict := false
				for ps, en := range dOther {
					if en2, both := dRaw[ps]; both && en2 != en {
						conflict = true
					}
				}
				if !conflict {
					raws[1] = other
					e.Fault("two_different_feedbacks_at_once")
				}
			}
		}
	}
	if !c09Declare(e, cfg, raws[1], byT, byS) || !c09Declare(e, cfg, raws[0], byT, byS) {
		return
	}
	var reps [2]rtpfb.Report
	var errs [2]error
	var gs []*simrt.G
	for k := 0; k < 2; k++ {
		gs = append(gs, e.Go(fmt.Sprintf("rtcp-reader%d", k), func() {
			attrs := interceptor.Attributes{}
			attrs.Set("c09raw", raws[k])
			_, attr, err := rtcpR.Read(make([]byte, 1500), attrs)
			errs[k] = err
			if err == nil {
				reps[k], _ = attr.Get(rtpfb.CCFBAttributesKey).(rtpfb.Report)
			}
		}))
	}
	e.Wait(gs...)
	// which reader built its report first is not observable: the send-order rule is applied to the reports
	// in the order that satisfies it, if there is one
	first, second := 0, 1
	if len(reps[0].PacketReports) > 0 && len(reps[1].PacketReports) > 0 {
		a := byS[[2]uint32{reps[0].PacketReports[0].SSRC, uint32(reps[0].PacketReports[0].RTPSequenceNumber)}]
		b := byS[[2]uint32{reps[1].PacketReports[0].SSRC, uint32(reps[1].PacketReports[0].RTPSequenceNumber)}]
		if a != nil && b != nil && b.order < a.order {
			first, second = 1, 0
		}
	}
	for _, k := range []int{first, second} {
		if errs[k] != nil {
			e.Violatef("oracle", "c09:rtpfb:read-error", "%v", errs[k])
			continue
		}
		c09CheckReport(e, cfg, reps[k], byS, lastOrder)
	}
}

// c09CheckReport checks one rtpfb report against what the feedback so far has declared.
func c09CheckReport(e *Env, cfg c09Cfg, rep rtpfb.Report, byS map[[2]uint32]*c09Sent, lastOrder *int) {
	for _, pr := range rep.PacketReports {
		ps := byS[[2]uint32{pr.SSRC, uint32(pr.RTPSequenceNumber)}]
		if ps == nil {
			e.Violatef("oracle", "c09:rtpfb:never-sent", "report names SSRC %d seq %d which was never sent", pr.SSRC, pr.RTPSequenceNumber)
			continue
		}
		if pr.Size != ps.size || !pr.Departure.Equal(ps.departure) {
			e.Violatef("oracle", "c09:rtpfb:wrong-packet-data", "report for SSRC %d seq %d carries size %d departure %v, sent with %d at %v", pr.SSRC, pr.RTPSequenceNumber, pr.Size, pr.Departure, ps.size, ps.departure)
		}
		ps.reported++
		if ps.reported > 1 {
			e.Violatef("oracle", "c09:rtpfb:reported-twice", "SSRC %d seq %d reported %d times across reports", pr.SSRC, pr.RTPSequenceNumber, ps.reported)
		}
		if ps.order <= *lastOrder {
			e.Violatef("oracle", "c09:rtpfb:not-in-send-order", "SSRC %d seq %d (sent #%d) reported after a packet sent later (#%d)", pr.SSRC, pr.RTPSequenceNumber, ps.order, *lastOrder)
		} else {
			*lastOrder = ps.order
		}
		if !ps.addressed {
			e.Violatef("oracle", "c09:rtpfb:reports-unaddressed-packet", "SSRC %d seq %d is reported (arrived=%v) although no feedback has declared a status for it", pr.SSRC, pr.RTPSequenceNumber, pr.Arrived)
			continue
		}
		if pr.Arrived != ps.arrived || uint8(pr.ECN) != ps.ecn || (cfg.TWCC && ps.arrKnown && ps.arrived && !pr.Arrival.Equal(ps.arrival)) {
			e.Violatef("oracle", "c09:rtpfb:status-misattributed", "SSRC %d seq %d: the latest feedback about it encodes arrived=%v arrival=%v ecn=%d, the report says arrived=%v arrival=%v ecn=%d", pr.SSRC, pr.RTPSequenceNumber, ps.arrived, ps.arrival.Sub(time.Time{}), ps.ecn, pr.Arrived, pr.Arrival.Sub(time.Time{}), pr.ECN)
		}
		e.Probe("report_checked")
	}
}
