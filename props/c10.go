package props

import (
	"fmt"
	"os"
	"sort"
	"time"

	"github.com/pion/rtcp"
	"github.com/pion/rtp"

	"verif/simrt"
)

// C10: interceptors are free of data races, deadlocks and lost updates under
// every permitted concurrent use.  Built with -race; a race report is a
// deterministic verdict of the plan (see simrt).

type c10 struct{}

func init() { register(c10{}) }

func (c10) ID() string { return "C10" }

func (c10) Gen(seed int64, tier string, avoid []string) *Plan {
	p, r := newPlan("C10", seed, tier, avoid)
	avoidSet := map[string]bool{}
	for _, a := range avoid {
		avoidSet[a] = true
	}
	cfg := RigCfg{RTCPReaders: pick(r, 1, 2, 3), DrainMs: 120, Writers2: chance(r, 500), Reuse: false}
	nk := pick(r, 1, 1, 2, 3, 4)
	for i := 0; i < nk; i++ {
		k := rigKinds[r.Intn(len(rigKinds))]
		if f := os.Getenv("C10_FOCUS"); f != "" && i == 0 {
			k = f // (exploration aid, not used by the registered commands)
		}
		if avoidSet["c10-"+k] {
			k = "report_recv"
		}
		cfg.Kinds = append(cfg.Kinds, k)
		cfg.KSeed = append(cfg.KSeed, r.Int63())
	}
	if avoidSet["c10-rtpfb-two-rtcp-readers"] {
		for _, k := range cfg.Kinds {
			if k == "rtpfb" {
				cfg.RTCPReaders = 1
			}
		}
	}
	p.PoolDrop = pick(r, 0, 0, 300)
	cfg.LibStallUs = int64(pick(r, 0, 0, -1, 300, 3000))
	if chance(r, 200) {
		cfg.RTCPWErrAt = 1 + r.Intn(6)
	}
	topt := rigTrafficOpts{nackBias: chance(r, 500), lifecycle: chance(r, 500), observers: true, coincide: pick(r, 0, 300, 700)}
	for _, k := range cfg.Kinds {
		if k == "rtpfb" || k == "cc_noop" || k == "cc_leaky" {
			topt.fbBias = chance(r, 700)
			if !avoidSet["c10-rtpfb-two-rtcp-readers"] && chance(r, 600) {
				cfg.RTCPReaders = pick(r, 2, 3)
			}
		}
	}
	genRigTraffic(r, &cfg, p, tier, topt)
	// spread ops of one stream over its two goroutines
	ops := opsOf[RigOp](p)
	for i := range ops {
		ops[i].W = r.Intn(2)
	}
	if len(ops) > 0 && chance(r, 400) {
		// streams that appear later: bound by the lifecycle goroutine in the middle of the traffic
		last := ops[len(ops)-1].AtUs
		for k := 1 + r.Intn(2); k > 0; k-- {
			ops = append(ops, RigOp{K: "bn", AtUs: r.Int63n(last + 1), HS: r.Int63()})
		}
		sort.SliceStable(ops, func(i, j int) bool { return ops[i].AtUs < ops[j].AtUs })
	}
	setOps(p, ops)
	return p
}

func (c10) Run(e *Env) {
	cfg := cfgOf[RigCfg](e.Plan)
	ops := opsOf[RigOp](e.Plan)
	e.StrandedIsViolation = true
	e.SetSample(fmt.Sprintf("kinds=%v local=%d remote=%d two-goroutines-per-stream=%v rtcp-readers=%d ops=%d pool_drop=%d", cfg.Kinds, len(cfg.Local), len(cfg.Remote), cfg.Writers2, cfg.RTCPReaders, len(ops), e.Plan.PoolDrop))
	rg := newRig(e, cfg, ops)
	if !rg.Build(nil) {
		e.Violatef("oracle", "c10:construct", "chain %v does not build: %v", cfg.Kinds, rg.BuildErr)
		return
	}
	rg.Bind()
	rg.Run()
	simrt.Sleep(time.Duration(cfg.DrainMs) * time.Millisecond)
	lifecycle := rg.closeEnt != 0
	for _, u := range append(append([]int{}, rg.unboundL...), rg.unboundR...) {
		if u != 0 {
			lifecycle = true
		}
	}
	rg.DoClose()
	if cfg.Writers2 {
		e.Probe("same_stream_concurrency")
	}
	if cfg.RTCPReaders > 1 {
		e.Probe("concurrent_rtcp_readers")
	}
	e.AtEnd(func() {
		e.Check() // the run's verdict itself: no race report, no stranded caller, no panic
		c10Conservation(e, rg, lifecycle)
	})
}

// c10Conservation: counters and sequence allocations lose no updates.
func c10Conservation(e *Env, rg *Rig, lifecycle bool) {
	cfg := rg.cfg
	has := func(k string) bool {
		for _, x := range cfg.Kinds {
			if x == k {
				return true
			}
		}
		return false
	}
	// transport-wide sequence numbers: one consecutive run over all negotiated streams
	if has("twcc_hdr") {
		var nums []uint16
		for _, o := range rg.Out {
			st := cfg.Local[o.stream]
			if st.TWCC == 0 {
				continue // (injected RTX/FEC packets of a negotiated stream take numbers too)
			}
			var ext rtp.TransportCCExtension
			if b := o.hdr.GetExtension(uint8(st.TWCC)); b != nil && ext.Unmarshal(b) == nil {
				nums = append(nums, ext.TransportSequence)
			}
		}
		e.Check()
		// a write that failed downstream still consumed a number and it was seen by the next writer; with
		// buffering members some packets may be stuck in queues at Close: only check uniqueness then
		buffered := false
		for _, k := range cfg.Kinds {
			if rigBuffering[k] || k == "nack_resp" {
				buffered = true // (a retransmission re-sends a stored packet, possibly with the number it already had)
			}
		}
		twccCount := 0
		for _, k := range cfg.Kinds {
			if k == "twcc_hdr" {
				twccCount++
			}
		}
		if os.Getenv("C10_DEBUG") != "" {
			dbg, _ := os.Create(os.Getenv("C10_DEBUG"))
			defer dbg.Close()
			for _, o := range rg.Out {
				var ext rtp.TransportCCExtension
				b := o.hdr.GetExtension(uint8(cfg.Local[o.stream].TWCC))
				ext.Unmarshal(b)
				fmt.Fprintf(dbg, "OUT stream=%d lib=%v ssrc=%d pt=%d seq=%d num=%d haveext=%v err=%v at=%v\n", o.stream, o.byLib, o.hdr.SSRC, o.hdr.PayloadType, o.hdr.SequenceNumber, ext.TransportSequence, b != nil, o.errRet, o.at)
			}
		}
		// FEC packets injected above the numbering member take numbers too; the congestion controller's pacer
		// refuses them (their SSRC was never added to it), so they never reach the wire: gaps are then expected,
		// duplicates are not
		fecRefused := has("flexfec") && (has("cc_noop") || has("cc_leaky"))
		if !buffered && !lifecycle && twccCount == 1 {
			if fecRefused {
				seen := map[uint16]bool{}
				for _, v := range nums {
					if seen[v] && len(nums) < 65536 {
						e.Violatef("oracle", "c15:not-consecutive", "transport sequence number %d assigned twice among %d packets", v, len(nums))
						break
					}
					seen[v] = true
				}
			} else {
				c15Consecutive(e, nums)
			}
		}
	}
	if lifecycle {
		return // counters of unbound/closed streams are not defined
	}
	// sender reports: the last report of each stream counts every packet written on it
	if has("report_send") && !has("pacing") && !has("cc_leaky") {
		writes := map[uint32]int{}
		octets := map[uint32]uint32{}
		pos := -1
		for i, k := range cfg.Kinds {
			if k == "report_send" {
				pos = i
			}
		}
		// members closer to the application than report_send may swallow a write on a downstream error only
		failed := false
		attempts := map[uint32]int{}
		for _, w := range rg.Writes {
			attempts[cfg.Local[w.stream].SSRC]++
			if w.err != nil {
				failed = true // a member nearer to the application refused the packet
				continue
			}
			writes[cfg.Local[w.stream].SSRC]++
			octets[cfg.Local[w.stream].SSRC] += uint32(len(w.payload))
		}
		_ = pos
		last := map[uint32]*rtcp.SenderReport{}
		lastIter := map[uint32]int{} // step at which the iteration that produced it began
		for _, o := range rg.RTCPOut {
			if o.app {
				continue // RTCP the application wrote itself
			}
			for _, p := range o.pkts {
				if sr, ok := p.(*rtcp.SenderReport); ok {
					last[sr.SSRC] = sr
					lastIter[sr.SSRC] = o.iter
				}
			}
		}
		lastWrite := map[uint32]int{} // step at which the last write on the stream returned
		for _, w := range rg.Writes {
			if w.ret > lastWrite[cfg.Local[w.stream].SSRC] {
				lastWrite[cfg.Local[w.stream].SSRC] = w.ret
			}
		}
		onlyReporters := true
		for _, k := range cfg.Kinds {
			if k == "nack_resp" || k == "flexfec" || k == "jitterbuffer" {
				onlyReporters = false // these inject or may reject packets on the way
			}
		}
		for ssrc, sr := range last {
			e.Check()
			if onlyReporters && cfg.RTCPWErrAt == 0 && int(sr.PacketCount) > attempts[ssrc] {
				e.Violatef("oracle", "c10:sender-report-overcount", "SSRC %d: last sender report counts %d packets, only %d were written", ssrc, sr.PacketCount, attempts[ssrc])
			}
		}
		// a final report after quiescence must have seen every write
		for ssrc, n := range writes {
			if sr := last[ssrc]; sr != nil && onlyReporters && !failed && countMembers(cfg.Kinds, "report_send") == 1 && lastIter[ssrc] > lastWrite[ssrc] {
				// (only a report whose iteration began after the last write had returned has seen everything)
				if int(sr.PacketCount) != n || sr.OctetCount != octets[ssrc] {
					e.Violatef("oracle", "c10:lost-update:sender-report", "SSRC %d: %d packets / %d octets written (also concurrently on the same stream), the sender report after quiescence says %d / %d", ssrc, n, octets[ssrc], sr.PacketCount, sr.OctetCount)
				}
			}
		}
	}
	// statistics: packets sent / received equal a recount
	if has("stats") && countMembers(cfg.Kinds, "stats") == 1 && len(rg.statsGetters) == 1 && !has("pacing") && !has("cc_leaky") && !has("jitterbuffer") && !has("nack_resp") && !has("flexfec") {
		g := rg.statsGetters[0]
		for s, st := range cfg.Local {
			n := 0
			for _, w := range rg.Writes {
				if w.stream == s {
					n++
				}
			}
			if got := g(st.SSRC); got != nil && n > 0 {
				e.Check()
				if int(got.OutboundRTPStreamStats.PacketsSent) > n {
					e.Violatef("oracle", "c10:stats-overcount", "SSRC %d: stats report %d packets sent, %d were written", st.SSRC, got.OutboundRTPStreamStats.PacketsSent, n)
				}
			}
		}
	}
}

func countMembers(kinds []string, k string) int {
	n := 0
	for _, x := range kinds {
		if x == k {
			n++
		}
	}
	return n
}
