package props

import (
	"fmt"
	"sort"
	"strings"
	"time"

	"github.com/pion/rtcp"

	"verif/simrt"
)

// C11: Close and Unbind stop activity and never strand a caller.

type c11 struct{}

func init() { register(c11{}) }

func (c11) ID() string { return "C11" }

func (c11) Gen(seed int64, tier string, avoid []string) *Plan {
	p, r := newPlan("C11", seed, tier, avoid)
	avoidSet := map[string]bool{}
	for _, a := range avoid {
		avoidSet[a] = true
	}
	cfg := RigCfg{RTCPReaders: pick(r, 1, 1, 2), DrainMs: 400, WriterLast: chance(r, 200) && !avoidSet["c11-writer-last"]}
	nk := pick(r, 1, 1, 1, 2, 3)
	for i := 0; i < nk; i++ {
		k := rigKinds[r.Intn(len(rigKinds))]
		if avoidSet["c11-"+k] {
			k = "report_recv"
		}
		cfg.Kinds = append(cfg.Kinds, k)
		cfg.KSeed = append(cfg.KSeed, r.Int63())
	}
	if chance(r, 150) {
		cfg.RTCPWErrAt = 1 + r.Intn(6)
	}
	if chance(r, 200) {
		cfg.LibStallUs = int64(pick(r, 300, 3000, -2, -2)) // -2: the transport blocks what the library writes until the connection is closed
	}
	genRigTraffic(r, &cfg, p, tier, rigTrafficOpts{nackBias: chance(r, 400), observers: chance(r, 300)})
	ops := opsOf[RigOp](p)
	var end int64
	for _, o := range ops {
		if o.AtUs > end {
			end = o.AtUs
		}
	}
	// lifecycle history: unbinds, rebinds and Close at arbitrary instants (also exactly at an operation)
	at := func() int64 {
		if chance(r, 500) && len(ops) > 0 {
			return ops[r.Intn(len(ops))].AtUs + int64(pick(r, -1, 0, 0, 1))
		}
		return r.Int63n(end + 1)
	}
	for k := pick(r, 0, 1, 2, 4); k > 0; k-- {
		t := at()
		kind := pick(r, "ul", "ur")
		if avoidSet["c11-rfc8888-unbind"] {
			for _, k := range cfg.Kinds {
				if k == "rfc8888" {
					kind = "ul"
				}
			}
		}
		s := r.Intn(2)
		ops = append(ops, RigOp{K: kind, S: s, AtUs: t})
		if chance(r, 500) {
			rk := "bl"
			if kind == "ur" {
				rk = "br"
			}
			ops = append(ops, RigOp{K: rk, S: s, AtUs: t + int64(pick(r, 1, 500, 20000))})
		}
	}
	if chance(r, 300) {
		cfg.RTCPStallUs = int64(pick(r, 500, 5000, 30000))
		p.Cfg = mustJSON(cfg)
	}
	if chance(r, 700) {
		t := at()
		if chance(r, 300) {
			t = end + 1000
		} else if chance(r, 400) {
			// Close while an RTCP packet is being read (feedback still inside a member's pipeline)
			var cs []int64
			for _, o := range ops {
				if o.K == "c" {
					cs = append(cs, o.AtUs)
				}
			}
			if len(cs) > 0 {
				t = pick(r, cs...)
			}
		}
		ops = append(ops, RigOp{K: "close", AtUs: t})
		// a second Close overlapping the first, on chains whose members all document an idempotent Close
		idem := map[string]bool{"nack_gen": true, "report_recv": true, "report_send": true, "twcc_send": true, "rfc8888": true, "intervalpli": true, "twcc_hdr": true, "rtpfb": true, "flexfec": true}
		all := true
		for _, k := range cfg.Kinds {
			if !idem[k] {
				all = false
			}
		}
		if all && chance(r, 300) {
			ops = append(ops, RigOp{K: "close2", AtUs: t + int64(pick(r, 0, 1, 200, 3000))})
		}
	}
	sort.SliceStable(ops, func(i, j int) bool { return ops[i].AtUs < ops[j].AtUs })
	setOps(p, ops)
	return p
}

func (c11) Run(e *Env) {
	cfg := cfgOf[RigCfg](e.Plan)
	ops := opsOf[RigOp](e.Plan)
	e.StrandedIsViolation = true
	e.SetSample(fmt.Sprintf("kinds=%v local=%d remote=%d writer_last=%v rtcp_werr_at=%d ops=%d", cfg.Kinds, len(cfg.Local), len(cfg.Remote), cfg.WriterLast, cfg.RTCPWErrAt, len(ops)))
	rg := newRig(e, cfg, ops)
	if !rg.Build(nil) {
		e.Violatef("oracle", "c11:construct", "chain %v does not build: %v", cfg.Kinds, rg.BuildErr)
		return
	}
	rg.Bind()
	rg.Run()
	// >= 10 further timer periods (the longest interval the rig configures is 200 ms, intervalpli 3 s aside)
	simrt.Sleep(time.Duration(cfg.DrainMs) * time.Millisecond)
	rg.DoClose()
	simrt.Sleep(2500 * time.Millisecond)
	e.AtEnd(func() { c11Oracle(e, rg) })
}

func c11Oracle(e *Env, rg *Rig) {
	cfg := rg.cfg
	e.Check()
	// (1) Close returns only after every goroutine the interceptor started has finished
	if len(rg.LiveAtClose) > 0 {
		sites := map[string]bool{}
		for _, s := range rg.LiveAtClose {
			sites[s] = true
		}
		var l []string
		for s := range sites {
			l = append(l, s)
		}
		sort.Strings(l)
		e.Violatef("oracle", "c11:goroutine-alive-after-close:"+strings.Join(l, ","), "Close returned while %d goroutine(s) started by the chain %v were still running (spawn sites %v)", len(rg.LiveAtClose), cfg.Kinds, l)
	}
	// (2) nothing reaches any writer after Close returned
	if rg.closed2 != 0 && (rg.closed == 0 || rg.closed2 < rg.closed) {
		rg.closed = rg.closed2 // whichever Close returned first: nothing may be written after it
	}
	if rg.closed != 0 {
		for _, o := range rg.Out {
			if o.step > rg.closed && o.byLib {
				e.Violatef("oracle", "c11:rtp-written-after-close", "a library goroutine wrote an RTP packet (SSRC %d) to the next writer after Close had returned", o.hdr.SSRC)
				break
			}
		}
		appG := map[int]bool{}
		for _, g := range e.S.Gs() {
			if g.App {
				appG[g.ID] = true
			}
		}
		for _, o := range rg.RTCPOut {
			if o.step > rg.closed && !appG[o.gid] { // RTCP the application itself writes is passed through
				e.Violatef("oracle", "c11:rtcp-written-after-close", "RTCP (%s) was written after Close had returned", rtcpTypes(o.pkts))
				break
			}
		}
		e.Probe("closed")
	}
	// (3) traffic after / concurrent with Close returned (stranded callers are reported by the framework)
	after := 0
	for _, w := range rg.Writes {
		if rg.closeEnt != 0 && w.ret > rg.closeEnt {
			after++
		}
	}
	for _, r := range rg.Reads {
		if rg.closeEnt != 0 && r.ret > rg.closeEnt {
			after++
		}
	}
	if after > 0 {
		e.Probe("traffic_after_close")
	}
	// (3b) Bind/Unbind return although the transport is blocked
	for _, what := range rg.SlowCalls {
		e.Violatef("oracle", "c11:blocked-by-transport:"+what, "%s did not return while the next RTP writer stayed blocked on a packet the library itself was writing (chain %v): with a transport that stays blocked until the connection is closed it never returns", what, cfg.Kinds)
	}
	// (4) after Unbind returned no later-generated feedback names the SSRC
	names := func(pkts []rtcp.Packet, ssrc uint32) bool {
		for _, p := range pkts {
			switch p.(type) {
			case *rtcp.TransportLayerCC:
				continue // transport-wide feedback is not per stream
			}
			for _, d := range p.DestinationSSRC() {
				if d == ssrc {
					return true
				}
			}
			if sr, ok := p.(*rtcp.SenderReport); ok && sr.SSRC == ssrc {
				return true
			}
		}
		return false
	}
	check := func(ssrc uint32, unbound, rebound int, unboundAt time.Duration, what string) {
		if unbound == 0 {
			return
		}
		e.Probe("unbound")
		for _, o := range rg.RTCPOut {
			if o.step <= unbound || (rebound != 0 && o.step >= rebound) {
				continue
			}
			started := o.iter
			if started <= unbound {
				continue // the iteration that produced it began before Unbind returned: in flight
			}
			if o.at == unboundAt {
				// same instant as the Unbind: a request queued before it (a PLI forced by the Bind that preceded
				// the Unbind at this very instant) is in flight as well
				continue
			}
			if o.gid != 0 && names(o.pkts, ssrc) {
				// application-written RTCP passes through untouched
				isApp := false
				for _, g := range e.S.Gs() {
					if g.ID == o.gid && g.App {
						isApp = true
					}
				}
				if isApp {
					continue
				}
				e.Violatef("oracle", "c11:feedback-after-unbind:"+rtcpTypes(o.pkts), "%s about SSRC %d was generated after Unbind%sStream(%d) had returned (chain %v; unbind returned at step %d, the writing goroutine g%d began its iteration at step %d and wrote at step %d, t=%v)", rtcpTypes(o.pkts), ssrc, what, ssrc, cfg.Kinds, unbound, o.gid, started, o.step, o.at)
				return
			}
		}
	}
	for s, st := range cfg.Local {
		check(st.SSRC, rg.unboundL[s], 0, rg.unboundAtL[s], "Local")
	}
	for s, st := range cfg.Remote {
		check(st.SSRC, rg.unboundR[s], 0, rg.unboundAtR[s], "Remote")
	}
}

func rtcpTypes(pkts []rtcp.Packet) string {
	seen := map[string]bool{}
	var out []string
	for _, p := range pkts {
		t := strings.TrimPrefix(fmt.Sprintf("%T", p), "*rtcp.")
		if !seen[t] {
			seen[t] = true
			out = append(out, t)
		}
	}
	sort.Strings(out)
	return strings.Join(out, "+")
}
