package props

import (
	"fmt"
	"io"
	"math/rand"
	"os"
	"runtime"
	"runtime/pprof"
	"sort"
	"time"

	"github.com/pion/interceptor"
	"github.com/pion/rtcp"
	"github.com/pion/rtp"

	"verif/simrt"
)

// C12: memory held per interceptor is bounded regardless of stream length.
// Each run drives one interceptor through several equal-length phases of the
// same workload on the fake clock (timer-driven pruning included) and compares
// the heap after two forced GCs at the phase boundaries.  The harness keeps
// O(1) state (no logs, no recorded tape).

type c12Cfg struct {
	Kind      string `json:"kind"`
	KSeed     int64  `json:"kseed"`
	Mode      string `json:"mode"` // inorder | loss | dup | feedback | churn
	PerPhase  int    `json:"per_phase"`
	Phases    int    `json:"phases"`
	SpacingUs int64  `json:"spacing_us"`
	NoPause   bool   `json:"no_pause,omitempty"` // feedback mode: the stream does not pause while the heap is measured (state that only a pause releases counts as growth)
	Window    int    `json:"window,omitempty"` // backlog mode: the sender keeps up to 2*Window packets inside the pacer at all times
}

type c12 struct{}

func init() { register(c12{}) }

func (c12) ID() string { return "C12" }

var c12Modes = []string{"inorder", "loss", "dup", "feedback", "churn", "many", "backlog"}

func (c12) Gen(seed int64, tier string, avoid []string) *Plan {
	p, r := newPlan("C12", seed, tier, avoid)
	avoidSet := map[string]bool{}
	for _, a := range avoid {
		avoidSet[a] = true
	}
	idx := int(seed % int64(len(rigKinds)*len(c12Modes)))
	if idx < 0 {
		idx = -idx
	}
	cfg := c12Cfg{Kind: rigKinds[idx%len(rigKinds)], Mode: c12Modes[idx/len(rigKinds)], KSeed: r.Int63(), Phases: 7, SpacingUs: int64(pick(r, 500, 1000, 2000))}
	cfg.PerPhase = 17000 // (the first phases also fill every 65536-slot table before growth is judged)
	if tier == "thorough" {
		cfg.PerPhase = 200000
	}
	if cfg.Mode == "churn" {
		cfg.PerPhase /= 4
	}
	if cfg.Mode == "feedback" {
		cfg.NoPause = chance(r, 600)
	}
	if cfg.Mode == "backlog" {
		// a closed-loop sender in front of the pacing interceptor: the queue is never empty (not at the end of a
		// pacing interval, not while the heap is measured) and never longer than 2*Window
		cfg.Kind = "pacing"
		cfg.Window = pick(r, 500, 1000, 2000)
		cfg.PerPhase *= 3
	}
	switch {
	case avoidSet["c12-"+cfg.Kind+"-"+cfg.Mode], avoidSet["c12-"+cfg.Kind],
		avoidSet["c12-cc-churn"] && cfg.Mode == "churn" && (cfg.Kind == "cc_noop" || cfg.Kind == "cc_leaky"),
		avoidSet["c12-rtpfb-nofeedback"] && cfg.Kind == "rtpfb" && cfg.Mode != "feedback",
		avoidSet["c12-jitterbuffer-lossy"] && cfg.Kind == "jitterbuffer" && (cfg.Mode == "loss" || cfg.Mode == "dup" || cfg.Mode == "many"):
		cfg.Kind = "report_send" // the trigger of an open known finding: spend the run elsewhere
	}
	p.Cfg = mustJSON(cfg)
	p.Ops = nil
	p.Soak = true
	p.Strategy = 3
	if cfg.Mode == "churn" {
		p.Strategy = 0 // Unbind racing with the timer goroutines needs real interleaving
	}
	p.MaxSteps = 1 << 30
	p.LimitMs = 1 << 40
	return p
}

type c12Live struct {
	w            interceptor.RTPWriter
	rd           interceptor.RTPReader
	li, ri       *interceptor.StreamInfo
	lssrc, rssrc uint32
	seq          uint16
	gappy        bool // this stream's numbers have gaps (something to NACK)
}

type c12Writer struct{ n *int }

func (w *c12Writer) Write(h *rtp.Header, pl []byte, _ interceptor.Attributes) (int, error) {
	*w.n++
	return len(pl), nil
}

func (c12) Run(e *Env) {
	if os.Getenv("C12_PROF") != "" {
		runtime.MemProfileRate = 1
	}
	cfg := cfgOf[c12Cfg](e.Plan)
	e.SetSample(fmt.Sprintf("kind=%s mode=%s phases=%d x %d packets spacing=%dus", cfg.Kind, cfg.Mode, cfg.Phases, cfg.PerPhase, cfg.SpacingUs))
	rg := newRig(e, RigCfg{Kinds: []string{cfg.Kind}, KSeed: []int64{cfg.KSeed}}, nil)
	rg.soak = true
	if !rg.Build(nil) {
		e.Violatef("oracle", "c12:construct", "%v", rg.BuildErr)
		return
	}
	e.S.OnRelease = nil
	ch := rg.chain
	nOut, nRTCP := 0, 0
	rtcpW := ch.BindRTCPWriter(interceptor.RTCPWriterFunc(func(p []rtcp.Packet, _ interceptor.Attributes) (int, error) {
		nRTCP++
		return 0, nil
	}))
	var rtcpIn []byte
	rtcpR := ch.BindRTCPReader(interceptor.RTCPReaderFunc(func(b []byte, a interceptor.Attributes) (int, interceptor.Attributes, error) {
		if rtcpIn == nil {
			return 0, a, io.EOF
		}
		return copy(b, rtcpIn), a, nil
	}))
	var rtpIn []byte
	bindPair := func(lssrc, rssrc uint32) (interceptor.RTPWriter, interceptor.RTPReader, *interceptor.StreamInfo, *interceptor.StreamInfo) {
		li := RigStream{SSRC: lssrc, PT: 96, Clock: 90000, TWCC: 5, NACK: true, RTX: true, FEC: true}.info()
		ri := RigStream{SSRC: rssrc, PT: 97, Clock: 90000, TWCC: 4, NACK: true, PLI: true}.info()
		w := ch.BindLocalStream(li, &c12Writer{&nOut})
		rd := ch.BindRemoteStream(ri, interceptor.RTPReaderFunc(func(b []byte, a interceptor.Attributes) (int, interceptor.Attributes, error) {
			return copy(b, rtpIn), a, nil
		}))
		return w, rd, li, ri
	}
	w, rd, li, ri := bindPair(1100, 2200)
	r := rand.New(rand.NewSource(cfg.KSeed))
	buf := make([]byte, 1500)
	rbuf := make([]byte, 1500)
	h := &rtp.Header{Version: 2, SSRC: 1100, PayloadType: 96}
	rh := &rtp.Header{Version: 2, SSRC: 2200, PayloadType: 97}
	payload := make([]byte, 200)
	var lseq, rseq, tseq uint16
	sendOne := func() {
		h.SequenceNumber = lseq
		h.Timestamp += 3000
		h.Extensions, h.Extension, h.ExtensionProfile = nil, false, 0
		ext, _ := (&rtp.TransportCCExtension{TransportSequence: tseq}).Marshal()
		_ = h.SetExtension(5, ext)
		lseq++
		tseq++
		w.Write(h, payload, interceptor.Attributes{})
	}
	recvOne := func(seq uint16) {
		rh.SequenceNumber = seq
		rh.Timestamp = uint32(seq) * 3000
		rh.Extensions, rh.Extension, rh.ExtensionProfile = nil, false, 0
		ext, _ := (&rtp.TransportCCExtension{TransportSequence: seq}).Marshal()
		_ = rh.SetExtension(4, ext)
		n, _ := rh.MarshalTo(buf)
		n += copy(buf[n:], payload[:50])
		rtpIn = buf[:n]
		rd.Read(rbuf, interceptor.Attributes{})
	}
	feedback := func() {
		// acknowledge what was sent recently (TWCC and RFC 8888), ask for a retransmission, send SR/RR
		k := 20
		syms := make([]twccSym, k)
		// a real receiver: every packet is acknowledged, the arrival times continue from one feedback to the next
		// (the packets arrived one sending interval apart, the last one just now)
		nowUs := e.S.Now().Microseconds()
		for i := range syms {
			syms[i] = twccSym{Recv: true, DeltaUs: cfg.SpacingUs}
		}
		syms[0].DeltaUs = nowUs%64000 - int64(k-1)*cfg.SpacingUs
		base := tseq - uint16(k)
		rtcpIn = encodeTWCC(9, 1100, base, uint32(nowUs/64000), uint8(r.Intn(256)), syms, r, false)
		rtcpR.Read(rbuf, interceptor.Attributes{})
		var ms []ccfbMetric
		for i := 0; i < k; i++ {
			ms = append(ms, ccfbMetric{Received: true, ATO: 5})
		}
		rtcpIn = encodeCCFB(9, []ccfbIn{{SSRC: 1100, Begin: lseq - uint16(k), Metrics: ms}}, 0)
		rtcpR.Read(rbuf, interceptor.Attributes{})
		raw, _ := rtcp.Marshal([]rtcp.Packet{
			&rtcp.TransportLayerNack{SenderSSRC: 2, MediaSSRC: 1100, Nacks: []rtcp.NackPair{{PacketID: lseq - 3}}},
			&rtcp.SenderReport{SSRC: 2200, NTPTime: uint64(e.S.Now()), RTPTime: 1},
			&rtcp.ReceiverReport{SSRC: 2, Reports: []rtcp.ReceptionReport{{SSRC: 1100, LastSequenceNumber: uint32(lseq)}}},
		})
		rtcpIn = raw
		rtcpR.Read(rbuf, interceptor.Attributes{})
		// the application's own reports go out through the chain as well (compound: several reports in one batch)
		rtcpW.Write([]rtcp.Packet{
			&rtcp.SenderReport{SSRC: 1100, NTPTime: uint64(e.S.Now()) << 16, RTPTime: h.Timestamp, PacketCount: uint32(lseq), Reports: []rtcp.ReceptionReport{{SSRC: 2200, LastSequenceNumber: uint32(rseq)}}},
			&rtcp.SenderReport{SSRC: 1100, NTPTime: uint64(e.S.Now())<<16 + 1, RTPTime: h.Timestamp, PacketCount: uint32(lseq), Reports: []rtcp.ReceptionReport{{SSRC: 2200, LastSequenceNumber: uint32(rseq)}}},
			&rtcp.ExtendedReport{SenderSSRC: 1100, Reports: []rtcp.ReportBlock{
				&rtcp.ReceiverReferenceTimeReportBlock{NTPTimestamp: uint64(e.S.Now()) << 16},
				&rtcp.ReceiverReferenceTimeReportBlock{NTPTimestamp: uint64(e.S.Now())<<16 + 1},
			}},
		}, interceptor.Attributes{})
	}
	var heap []uint64
	var objs []uint64
	var snaps []*cellWalker
	sentN := 0 // backlog mode: packets handed to the pacer (nOut of them have come out)
	measure := func() {
		if cfg.Mode == "backlog" {
			// measured with the standing backlog in place, at exactly the same fill every time
			for sentN-nOut < 2*cfg.Window {
				sendOne()
				sentN++
			}
			simrt.Sleep(time.Microsecond) // the pacer's goroutine takes them off its hand-off channel
		} else if cfg.NoPause {
			// an uninterrupted stream: the next packet follows within the usual spacing (plus the time the
			// queues need), so nothing that only a pause in the stream would release is released here
			simrt.Sleep(3 * time.Millisecond)
		} else {
			simrt.Sleep(600 * time.Millisecond) // let timers prune and queues drain
		}
		runtime.GC()
		runtime.GC()
		var ms runtime.MemStats
		runtime.ReadMemStats(&ms)
		heap = append(heap, ms.HeapAlloc)
		objs = append(objs, ms.HeapObjects)
		snaps = append(snaps, countCells(ch))
		if df := os.Getenv("C12_DEBUG_FILE"); df != "" {
			if f, err := os.OpenFile(df, os.O_APPEND|os.O_CREATE|os.O_WRONLY, 0o644); err == nil {
				fmt.Fprintf(f, "seed=%d kind=%s mode=%s window=%d heap=%d objs=%d out=%d sent=%d now=%v\n", e.Plan.Seed, cfg.Kind, cfg.Mode, cfg.Window, ms.HeapAlloc, ms.HeapObjects, nOut, sentN, simNow())
				f.Close()
			}
		}
		if os.Getenv("C12_DEBUG") != "" {
			fmt.Fprintf(os.Stderr, "C12 cells=%d %v\n", snaps[len(snaps)-1].total, snaps[len(snaps)-1].count)
			for _, est := range rg.estimators {
				fmt.Fprintf(os.Stderr, "C12 target=%d stats=%v out=%d sent=%d\n", est.GetTargetBitrate(), est.GetStats(), nOut, lseq)
			}
			fmt.Fprintf(os.Stderr, "C12 heapalloc=%d objs=%d mallocs=%d frees=%d inuse=%d numgc=%d stackinuse=%d gs=%d\n", ms.HeapAlloc, ms.HeapObjects, ms.Mallocs, ms.Frees, ms.HeapInuse, ms.NumGC, ms.StackInuse, runtime.NumGoroutine())
		}
	}
	cycle := uint32(0)
	var live []c12Live
	var manyR []interceptor.RTPReader
	manyN := 0
	for ph := 0; ph < cfg.Phases; ph++ {
		for i := 0; i < cfg.PerPhase; i++ {
			if cfg.Mode != "backlog" {
				simrt.Sleep(us(cfg.SpacingUs))
			}
			switch cfg.Mode {
			case "backlog":
				for sentN-nOut >= 2*cfg.Window {
					simrt.Sleep(200 * time.Microsecond)
				}
				sendOne()
				sentN++
			case "inorder":
				sendOne()
				recvOne(rseq)
				rseq++
			case "loss":
				sendOne()
				if i%10 != 3 {
					recvOne(rseq)
				} else {
					lseq++ // a hole in the outgoing numbering too
				}
				rseq++
			case "dup":
				sendOne()
				recvOne(rseq)
				if i%7 == 0 {
					recvOne(rseq)
					recvOne(rseq - 2)
				}
				rseq++
			case "feedback":
				sendOne()
				if i%13 == 5 {
					// the application sends the same packet once more (same numbers)
					lseq--
					tseq--
					h.Timestamp -= 3000
					sendOne()
				}
				recvOne(rseq)
				rseq++
				if i%20 == 19 {
					feedback()
				}
			case "many":
				// many concurrently bound streams (more than one report can describe)
				if manyR == nil {
					for k := 0; k < 150; k++ {
						_, r1, _, _ := bindPair(uint32(30000+k), uint32(40000+k))
						manyR = append(manyR, r1)
					}
				}
				k := manyN % len(manyR)
				rh.SSRC = uint32(40000 + k)
				rh.SequenceNumber = uint16(manyN / len(manyR))
				manyN++
				n, _ := rh.MarshalTo(buf)
				n += copy(buf[n:], payload[:20])
				rtpIn = buf[:n]
				manyR[k].Read(rbuf, interceptor.Attributes{})
				rh.SSRC = 2200
			case "churn":
				// short-lived streams: each lives for a few wake-ups, so that its Unbind lands on instants at which
				// the interceptor's timers fire too; per-stream state must be released
				cycle++
				if len(live) >= 4 {
					old := live[0]
					live = live[1:]
					if cycle%3 == 0 {
						// the application describes the stream it removes afresh (only the SSRC identifies it)
						ch.UnbindLocalStream(&interceptor.StreamInfo{SSRC: old.li.SSRC})
						ch.UnbindRemoteStream(&interceptor.StreamInfo{SSRC: old.ri.SSRC})
					} else {
						ch.UnbindLocalStream(old.li)
						ch.UnbindRemoteStream(old.ri)
					}
				}
				cw, crd, cli, cri := bindPair(50000+cycle, 90000+cycle)
				// (which streams have gaps must not correlate with the instants at which timers fire)
				live = append(live, c12Live{cw, crd, cli, cri, 50000 + cycle, 90000 + cycle, 0, (cycle*0x9E3779B1>>20)&1 == 0})
				for li := range live {
					l := &live[li]
					l.seq++
					sq := l.seq
					if l.gappy {
						sq = l.seq * 3
					}
					hh := &rtp.Header{Version: 2, SSRC: l.lssrc, PayloadType: 96, SequenceNumber: sq}
					l.w.Write(hh, payload[:20], interceptor.Attributes{})
					rh.SSRC = l.rssrc
					rh.SequenceNumber = sq
					n, _ := rh.MarshalTo(buf)
					rtpIn = buf[:n]
					l.rd.Read(rbuf, interceptor.Attributes{})
				}
				rh.SSRC = 2200
			}
		}
		measure()
	}
	if pf := os.Getenv("C12_PROF"); pf != "" {
		if f, err := os.Create(pf); err == nil {
			pprof.Lookup("heap").WriteTo(f, 0)
			f.Close()
		}
	}
	ch.UnbindLocalStream(li)
	ch.UnbindRemoteStream(ri)
	ch.Close()
	e.Check()
	// growth between successive phases after warm-up: a real leak grows in every phase
	perUnit := 2.0
	slack := 24.0 * 1024
	if cfg.Mode == "churn" {
		perUnit = 40.0
	}
	minGrowth := int64(1 << 62)
	minObj := int64(1 << 62)
	for i := len(heap) - 3; i < len(heap); i++ {
		g := int64(heap[i]) - int64(heap[i-1])
		if g < minGrowth {
			minGrowth = g
		}
		o := int64(objs[i]) - int64(objs[i-1])
		if o < minObj {
			minObj = o
		}
	}
	e.Probe(fmt.Sprintf("soak_%s", cfg.Mode))
	// a pacer fed above its rate queues packets by definition: the offered load must stay below the pacing rate
	offered := float64(8*(12+8+len(payload))) / (float64(cfg.SpacingUs) / 1e6)
	for _, est := range rg.estimators {
		if cfg.Kind == "cc_leaky" && 1.5*float64(est.GetTargetBitrate()) < 2*offered {
			e.Probe("overloaded_pacer_skipped")
			return
		}
	}
	// structure-level check: some container reachable from the interceptor grew in each of the last three phases
	if g := growingPaths(snaps, 4, 4); len(g) > 0 {
		sort.Strings(g)
		if len(g) > 4 {
			g = g[:4]
		}
		e.Violatef("oracle", "c12:grows:"+cfg.Kind+":"+cfg.Mode, "%s, workload %q: containers reachable from the interceptor keep growing phase after phase: %v", cfg.Kind, cfg.Mode, g)
		return
	}
	limit := int64(perUnit*float64(cfg.PerPhase) + slack)
	if len(heap) >= 7 {
		// Envelope rule (every workload): "growth in every one of the last three phases" cannot see a leak inside
		// an amortised container that is not reachable from the interceptor value (a slice local to a goroutine
		// grows in steps: +1 MB, +1 MB, +0.5 KB).
		// With a standing backlog the heap is a sawtooth even when nothing leaks (the pacer's slice slides through
		// its backing array, which keeps released packets reachable until it is replaced), and a leak in an
		// amortised container grows in steps: compare the envelope of the last three phases with that of the
		// three before.  Both its top and its bottom must have risen by more than the sawtooth can explain
		// (everything the backlog can keep reachable, generously 600 bytes per packet in flight).
		n := len(heap)
		lo := func(a []uint64) int64 { return int64(min(a[0], a[1], a[2])) }
		hi := func(a []uint64) int64 { return int64(max(a[0], a[1], a[2])) }
		rise := min(hi(heap[n-3:])-hi(heap[n-6:n-3]), lo(heap[n-3:])-lo(heap[n-6:n-3]))
		bound := 3*limit + int64(2*cfg.Window)*600
		if rise > bound {
			e.Violatef("oracle", "c12:grows:"+cfg.Kind+":"+cfg.Mode, "%s, workload %q (standing backlog: %d packets): the heap envelope of the last three phases of %d packets lies %d bytes above that of the three phases before (limit %d); heap at phase ends: %v", cfg.Kind, cfg.Mode, 2*cfg.Window, cfg.PerPhase, rise, bound, heap)
			return
		}
		if cfg.Mode == "backlog" {
			return
		}
	}
	if minGrowth > limit {
		e.Violatef("oracle", "c12:grows:"+cfg.Kind+":"+cfg.Mode, "%s, workload %q: the heap after two GCs grew by at least %d bytes (%d objects) in every one of the last %d successive phases of %d packets each (limit %d); heap at phase ends: %v", cfg.Kind, cfg.Mode, minGrowth, minObj, 3, cfg.PerPhase, limit, heap)
	}
	_ = nOut
	_ = nRTCP
}
