package props

import (
	"fmt"
	"sort"
	"time"

	"verif/simrt"
)

// C13: caller-owned buffers are not retained or modified after a call returns.
// The same plan is executed twice with identical schedule, clock and faults:
// variant A allocates fresh buffers per call, variant B reuses one
// header/payload/read buffer per stream and overwrites it as soon as each call
// returned.  Everything the interceptor emits or records must be identical.

type c13 struct{}

func init() { register(c13{}) }

func (c13) ID() string { return "C13" }
func (c13) Dual() bool { return true }

var c13Kinds = []string{"nack_resp", "flexfec", "pacing", "cc_leaky", "cc_noop", "dump_send", "dump_recv", "stats", "jitterbuffer", "twcc_send", "rfc8888", "report_send", "report_recv", "nack_gen", "rtpfb", "twcc_hdr"}

func (c13) Gen(seed int64, tier string, avoid []string) *Plan {
	p, r := newPlan("C13", seed, tier, avoid)
	avoidSet := map[string]bool{}
	for _, a := range avoid {
		avoidSet[a] = true
	}
	cfg := RigCfg{RTCPReaders: 1, DrainMs: 150}
	kinds := c13Kinds
	nk := pick(r, 1, 1, 1, 2)
	for i := 0; i < nk; i++ {
		k := kinds[r.Intn(len(kinds))]
		if avoidSet["c13-"+k] {
			k = "report_send"
		}
		cfg.Kinds = append(cfg.Kinds, k)
		cfg.KSeed = append(cfg.KSeed, r.Int63())
	}
	p.PoolDrop = pick(r, 0, 0, 200)
	cfg.LibStallUs = int64(pick(r, 0, 0, -1, 300, 3000))
	opt := rigTrafficOpts{nackBias: true, bigPayload: chance(r, 300), lifecycle: chance(r, 250), coincide: pick(r, 0, 0, 400)}
	for _, k := range cfg.Kinds {
		if k == "nack_resp" && chance(r, 500) {
			opt.bigPayload = true // packets the responder's pooled buffers cannot hold
		}
		if k == "jitterbuffer" {
			opt.longRemote = 60 + r.Intn(60) // the jitter buffer starts emitting after 50 packets
		}
	}
	genRigTraffic(r, &cfg, p, tier, opt)
	return p
}

type rigTrafficOpts struct {
	nackBias   bool
	errors     bool
	lifecycle  bool
	observers  bool
	bigPayload bool
	longRemote int  // extra in-order packets on remote stream 0
	fbBias     bool // prefer congestion-control feedback as RTCP input
	coincide   int  // per mille of operations that happen at the same instant as the previous one
}

// genRigTraffic fills in streams and a mixed workload (shared by the rig-based properties).
func genRigTraffic(r interface {
	Intn(int) int
	Int63() int64
}, cfg *RigCfg, p *Plan, tier string, o rigTrafficOpts) {
	rr := newRng(r.Int63())
	nl, nr := pick(rr, 1, 1, 2), pick(rr, 1, 1, 2)
	for s := 0; s < nl; s++ {
		cfg.Local = append(cfg.Local, RigStream{SSRC: uint32(1100 + s), PT: 96, Clock: pick(rr, uint32(90000), 48000), TWCC: pick(rr, 0, 3, 5), NACK: chance(rr, 800), RTX: chance(rr, 400), FEC: chance(rr, 600), Seq0: uint16(pick(rr, 0, 65530, rr.Intn(65536)))})
	}
	for s := 0; s < nr; s++ {
		cfg.Remote = append(cfg.Remote, RigStream{SSRC: uint32(2200 + s), PT: 97, Clock: 90000, TWCC: pick(rr, 0, 4), NACK: chance(rr, 800), PLI: chance(rr, 500), Seq0: uint16(pick(rr, 0, 65500, rr.Intn(65536)))})
	}
	n := pick(rr, 10, 30, 80)
	if tier == "thorough" {
		n = pick(rr, 30, 100, 300)
	}
	var ops []RigOp
	at := int64(500)
	kinds := []string{"nack", "nack", "sr", "rr", "pli", "fir", "xr", "twcc", "ccfb", "compound", "remb"}
	for i := 0; i < n; i++ {
		if o.coincide == 0 || !chance(rr, o.coincide) {
			at += int64(pick(rr, 50, 300, 1000, 4000))
		}
		maxLen := 1460
		if o.bigPayload {
			maxLen = pick(rr, 1460, 1461, 1500, 3000) // beyond the size the pooled buffers of some members hold
		}
		switch c := rr.Intn(100); {
		case c < 45:
			op := RigOp{K: "w", S: rr.Intn(nl), AtUs: at, HS: rr.Int63(), Len: pick(rr, 0, 1, 20, 300, 1200, maxLen)}
			if chance(rr, 30) {
				op.Gap = pick(rr, 1, 2, 5)
			}
			if chance(rr, 150) {
				op.Stall = int64(pick(rr, -1, 100, 2000))
			}
			if o.errors && chance(rr, 40) {
				op.Err = true
			}
			ops = append(ops, op)
		case c < 80:
			op := RigOp{K: "r", S: rr.Intn(nr), AtUs: at, HS: rr.Int63(), Len: pick(rr, 0, 1, 20, 300, 1200)}
			if chance(rr, 80) {
				op.Gap = pick(rr, 1, 2, 5)
			}
			if o.errors && chance(rr, 40) {
				op.Err = true
			}
			ops = append(ops, op)
		default:
			k := kinds[rr.Intn(len(kinds))]
			if o.nackBias && chance(rr, 500) {
				k = "nack"
			}
			if o.fbBias && chance(rr, 700) {
				k = pick(rr, "ccfb", "twcc")
			}
			op := RigOp{K: "c", R: rr.Intn(4), AtUs: at, HS: rr.Int63(), RK: k}
			if o.errors && chance(rr, 40) {
				op.Err = true
			}
			ops = append(ops, op)
			if o.coincide > 0 && chance(rr, 300) {
				// another RTCP stream's reader gets feedback at the same instant
				op.R, op.HS = op.R+1+rr.Intn(2), rr.Int63()
				ops = append(ops, op)
			}
		}
		if o.observers && chance(rr, 60) {
			ops = append(ops, RigOp{K: pick(rr, "get", "get", "setrate", "aw"), AtUs: at, HS: rr.Int63()})
		}
	}
	for i := 0; i < o.longRemote; i++ {
		at += 200
		ops = append(ops, RigOp{K: "r", S: 0, AtUs: at, HS: rr.Int63(), Len: pick(rr, 1, 20, 300)})
	}
	if o.lifecycle {
		for k := rr.Intn(3); k > 0; k-- {
			ops = append(ops, RigOp{K: pick(rr, "ul", "ur"), S: rr.Intn(2), AtUs: rr.Int63n(at + 1)})
		}
		if chance(rr, 400) {
			ops = append(ops, RigOp{K: "close", AtUs: rr.Int63n(at + 1)})
		}
	}
	sort.SliceStable(ops, func(i, j int) bool { return ops[i].AtUs < ops[j].AtUs })
	p.Cfg = mustJSON(*cfg)
	setOps(p, ops)
	p.LimitMs = at/1000 + 60_000
}

func (c13) Run(e *Env) {
	cfg := cfgOf[RigCfg](e.Plan)
	ops := opsOf[RigOp](e.Plan)
	cfg.Reuse = e.Plan.Variant == "B"
	e.SetSample(fmt.Sprintf("kinds=%v local=%d remote=%d ops=%d pool_drop=%d (each plan run twice: fresh vs. reused+scribbled buffers)", cfg.Kinds, len(cfg.Local), len(cfg.Remote), len(ops), e.Plan.PoolDrop))
	rg := newRig(e, cfg, ops)
	if !rg.Build(nil) {
		e.Violatef("oracle", "c13:construct", "chain %v does not build: %v", cfg.Kinds, rg.BuildErr)
		return
	}
	rg.Bind()
	rg.Run()
	simrt.Sleep(time.Duration(cfg.DrainMs) * time.Millisecond)
	// what statistics recorded
	for _, g := range rg.statsGetters {
		for _, st := range append(append([]RigStream{}, cfg.Local...), cfg.Remote...) {
			if s := g(st.SSRC); s != nil {
				e.Emit(fmt.Sprintf("stats:%d", st.SSRC), []byte(fmt.Sprintf("%+v", *s)))
			}
		}
	}
	rg.DoClose()
	simrt.Sleep(10 * time.Millisecond)
	// everything that reached a writer, a dump stream or the application (evaluated by the root after the run)
	e.AtEnd(func() {
		for _, o := range rg.Out {
			e.Check()
			h := o.hdr.Clone()
			for _, st := range cfg.Local {
				if st.RTX && h.SSRC == st.SSRC+10000 {
					h.SequenceNumber = 0 // RTX numbers come from pion/rtp's own random sequencer (not seeded)
				}
			}
			e.Emit(fmt.Sprintf("rtp-out:stream%d:lib=%v", o.stream, o.byLib), rawRTP(&h, o.payload))
			if o.byLib {
				e.Probe("library_emitted_rtp")
			}
		}
		for _, o := range rg.RTCPOut {
			// sender SSRCs of generated reports are drawn from the seeded library PRNG: identical in both runs
			e.Emit("rtcp-out", o.raw)
		}
		for i, d := range rg.dumps {
			e.Emit(fmt.Sprintf("dump%d", i), d.buf.Bytes())
		}
		for _, rd := range rg.Reads {
			if rd.stream >= 0 && rd.err == nil {
				e.Emit(fmt.Sprintf("rtp-in:stream%d", rd.stream), rd.got)
			}
		}
	})
	if cfg.Reuse {
		e.Fault("caller_reuses_buffers")
	}
}
