package props

import (
	"bytes"
	"encoding/binary"
	"errors"
	"fmt"
	"math/rand"

	"github.com/pion/interceptor"
	"github.com/pion/interceptor/pkg/flexfec"
	"github.com/pion/rtp"

	"verif/simrt"
)

// C14: FlexFEC-03 repair packets recover any single loss in their group.

type c14Cfg struct {
	Direct   bool     `json:"direct"` // drive FlexEncoder03.EncodeFec directly with changing (k, n)
	NumMedia uint32   `json:"num_media"`
	NumFEC   uint32   `json:"num_fec"`
	Streams  int      `json:"streams"`
	BaseSeq  []uint16 `json:"base_seq"`
	Reuse    bool     `json:"reuse"` // callers reuse and scribble their buffers after each Write
	WErrP    int      `json:"werr_permille,omitempty"` // interceptor path: the next writer fails this often (after it has seen the packet)
}

type c14Op struct {
	S   int   `json:"s,omitempty"`
	HS  int64 `json:"hs"`
	Len int   `json:"len"`
	Pad int   `json:"pad,omitempty"`
	// direct mode: a batch boundary with the FEC count to use
	Batch bool   `json:"batch,omitempty"`
	N     uint32 `json:"n,omitempty"`
	AtUs  int64  `json:"at_us,omitempty"`
}

type c14 struct{}

func init() { register(c14{}) }

func (c14) ID() string { return "C14" }

func (c14) Gen(seed int64, tier string, avoid []string) *Plan {
	p, r := newPlan("C14", seed, tier, avoid)
	avoidSet := map[string]bool{}
	for _, a := range avoid {
		avoidSet[a] = true
	}
	maxK := 110
	if avoidSet["c14-110-media-packets"] {
		maxK = 109
	}
	cfg := c14Cfg{Direct: chance(r, 450), Streams: pick(r, 1, 1, 2, 3), Reuse: chance(r, 500)}
	cfg.NumMedia = uint32(pick(r, 1, 2, 3, 5, 5, 8, 15, 16, 17, 46, 47, 109, maxK))
	cfg.NumFEC = uint32(min(110, pick(r, 0, 1, 1, 2, 2, 3, 5, int(cfg.NumMedia), int(cfg.NumMedia)+3, 110)))
	lens := []int{0, 1, 2, 10, 100, 500, 1200, 1459, 1460, 1476, 1488, 1500}
	var ops []c14Op
	if cfg.Direct {
		cfg.Streams = 1
		cfg.BaseSeq = []uint16{uint16(pick(r, 0, 65535, 65500, r.Intn(65536)))}
		nb := pick(r, 1, 2, 4, 8)
		if tier == "thorough" {
			nb = pick(r, 2, 8, 20)
		}
		k, n := int(cfg.NumMedia), cfg.NumFEC
		for b := 0; b < nb; b++ {
			if b > 0 && chance(r, 500) {
				k = pick(r, 1, 2, 3, 5, 8, 15, 16, 46, 47, 109, maxK, k)
			}
			if b > 0 && chance(r, 400) {
				n = uint32(min(110, pick(r, 0, 1, 2, 3, 5, k, k+2, 110)))
			}
			for i := 0; i < k; i++ {
				ops = append(ops, c14Op{HS: r.Int63(), Len: lens[r.Intn(len(lens))], Pad: pick(r, 0, 0, 0, 1, 2)})
			}
			ops = append(ops, c14Op{Batch: true, N: n})
		}
	} else {
		nb := pick(r, 1, 2, 3)
		if tier == "thorough" {
			nb = pick(r, 2, 5, 12)
		}
		at := int64(0)
		for s := 0; s < cfg.Streams; s++ {
			cfg.BaseSeq = append(cfg.BaseSeq, uint16(pick(r, 0, 65535-int(cfg.NumMedia)/2, r.Intn(65536))))
		}
		for i := 0; i < nb*int(cfg.NumMedia)*cfg.Streams; i++ {
			at += int64(r.Intn(300))
			l := lens[r.Intn(len(lens))]
			if l > 1460 {
				l = 1460
			}
			ops = append(ops, c14Op{S: r.Intn(cfg.Streams), HS: r.Int63(), Len: l, Pad: pick(r, 0, 0, 0, 1, 2), AtUs: at})
		}
		if chance(r, 300) {
			cfg.WErrP = pick(r, 20, 100, 300)
		}
	}
	p.Cfg = mustJSON(cfg)
	setOps(p, ops)
	return p
}

func c14Packet(o c14Op, ssrc uint32, seq uint16) rtp.Packet {
	h := hdrFromSeed(o.HS, ssrc, uint8(96+o.HS%20), seq, uint32(o.HS>>8), 0)
	pl := payloadFromSeed(o.HS, o.Len)
	switch o.Pad {
	case 1:
		h.Padding, h.PaddingSize = true, uint8(1+o.HS%7)
	case 2:
		if len(pl) > 0 {
			h.Padding = true
			pl[len(pl)-1] = byte(1 + int(o.HS%int64(len(pl)))%200)
		}
	}
	return rtp.Packet{Header: h.Clone(), Payload: pl}
}

type c14Repair struct {
	hdr     rtp.Header
	payload []byte
}

// c14Decode parses a FlexFEC-03 repair payload (draft-ietf-payload-flexible-fec-scheme-03 section 4.2).
type c14FEC struct {
	p, x    bool
	cc      uint8
	m       bool
	pt      uint8
	lenRec  uint16
	tsRec   uint32
	ssrc    uint32
	snBase  uint16
	covered []int // offsets from snBase
	body    []byte
	hdrSize int
}

func c14Decode(b []byte) (*c14FEC, error) {
	if len(b) < 20 {
		return nil, fmt.Errorf("repair payload of %d bytes is shorter than the 20-byte FEC header", len(b))
	}
	if b[0]&0xC0 != 0 {
		return nil, fmt.Errorf("R/F bits set (retransmission / fixed mask form not expected): %#x", b[0])
	}
	f := &c14FEC{p: b[0]&0x20 != 0, x: b[0]&0x10 != 0, cc: b[0] & 0x0f, m: b[1]&0x80 != 0, pt: b[1] & 0x7f,
		lenRec: binary.BigEndian.Uint16(b[2:]), tsRec: binary.BigEndian.Uint32(b[4:])}
	if b[8] != 1 {
		return nil, fmt.Errorf("SSRCCount %d, want 1", b[8])
	}
	f.ssrc = binary.BigEndian.Uint32(b[12:])
	f.snBase = binary.BigEndian.Uint16(b[16:])
	m1 := binary.BigEndian.Uint16(b[18:])
	for i := 0; i < 15; i++ {
		if m1&(1<<(14-i)) != 0 {
			f.covered = append(f.covered, i)
		}
	}
	f.hdrSize = 20
	if m1&0x8000 == 0 {
		if len(b) < 24 {
			return nil, fmt.Errorf("k-bit 0 announces a second mask but the payload ends")
		}
		m2 := binary.BigEndian.Uint32(b[20:])
		for i := 0; i < 31; i++ {
			if m2&(1<<(30-i)) != 0 {
				f.covered = append(f.covered, 15+i)
			}
		}
		f.hdrSize = 24
		if m2&0x80000000 == 0 {
			if len(b) < 32 {
				return nil, fmt.Errorf("k-bit 0 announces a third mask but the payload ends")
			}
			m3 := binary.BigEndian.Uint64(b[24:])
			for i := 0; i < 63; i++ {
				if m3&(1<<(62-i)) != 0 {
					f.covered = append(f.covered, 46+i)
				}
			}
			f.hdrSize = 32
		}
	}
	f.body = b[f.hdrSize:]
	return f, nil
}

// c14Recover reconstructs the covered packet `missing` from the repair packet and the other covered packets.
func c14Recover(f *c14FEC, others [][]byte, sn uint16) ([]byte, error) {
	b0 := byte(0)
	if f.p {
		b0 |= 0x20
	}
	if f.x {
		b0 |= 0x10
	}
	b0 |= f.cc
	b1 := f.pt
	if f.m {
		b1 |= 0x80
	}
	lr, ts := f.lenRec, f.tsRec
	body := append([]byte{}, f.body...)
	for _, o := range others {
		b0 ^= o[0] & 0x3f
		b1 ^= o[1]
		lr ^= uint16(len(o) - 12)
		ts ^= binary.BigEndian.Uint32(o[4:])
		for i := 12; i < len(o); i++ {
			if i-12 >= len(body) {
				return nil, fmt.Errorf("a protected packet (%d bytes after the header) is longer than the repair payload (%d)", len(o)-12, len(body))
			}
			body[i-12] ^= o[i]
		}
	}
	if int(lr) > len(body) {
		return nil, fmt.Errorf("recovered length %d exceeds the repair payload %d", lr, len(body))
	}
	out := make([]byte, 12+int(lr))
	out[0] = 0x80 | b0
	out[1] = b1
	binary.BigEndian.PutUint16(out[2:], sn)
	binary.BigEndian.PutUint32(out[4:], ts)
	binary.BigEndian.PutUint32(out[8:], f.ssrc)
	copy(out[12:], body[:lr])
	return out, nil
}

type c14Check struct {
	e       *Env
	fecSSRC uint32
	fecPT   uint8
	nextSN  map[uint32]uint16
	haveSN  map[uint32]bool
}

// batch verifies the repair packets produced for one batch of media packets.
func (c *c14Check) batch(media []rtp.Packet, repairs []c14Repair, nfec uint32, fecSSRC uint32) {
	e := c.e
	if len(media) >= 110 {
		// the FlexFEC-03 masks have 109 bits: violations of such a batch are tagged
		defer func(n int) {
			for i := n; i < len(e.out.Violations); i++ {
				if v := &e.out.Violations[i]; v.Class == "oracle" {
					v.Sig = "c14:110-media-packets"
				}
			}
		}(len(e.out.Violations))
	}
	e.Check()
	{
		var sq []uint16
		for _, rp := range repairs {
			sq = append(sq, rp.hdr.SequenceNumber)
		}
		e.S.Logf("batch k=%d n=%d base=%d repairs=%v", len(media), nfec, media[0].SequenceNumber, sq)
	}
	if nfec == 0 {
		if len(repairs) > 0 {
			e.Violatef("oracle", "c14:fec-with-zero-count", "%d repair packets although the FEC count is 0", len(repairs))
		}
		return
	}
	raw := make([][]byte, len(media))
	for i := range media {
		raw[i] = rawRTP(&media[i].Header, media[i].Payload)
	}
	protected := make([]int, len(media))
	for ri, rp := range repairs {
		if rp.hdr.SSRC != fecSSRC || rp.hdr.PayloadType != c.fecPT {
			e.Violatef("oracle", "c14:fec-ssrc-pt", "repair packet carries SSRC %d PT %d, want %d / %d", rp.hdr.SSRC, rp.hdr.PayloadType, fecSSRC, c.fecPT)
		}
		if c.haveSN[fecSSRC] && rp.hdr.SequenceNumber != c.nextSN[fecSSRC] {
			e.Violatef("oracle", "c14:fec-sequence", "repair packet sequence number %d, expected %d (previous + 1)", rp.hdr.SequenceNumber, c.nextSN[fecSSRC])
		}
		c.haveSN[fecSSRC], c.nextSN[fecSSRC] = true, rp.hdr.SequenceNumber+1
		f, err := c14Decode(rp.payload)
		if err != nil {
			e.Violatef("oracle", "c14:fec-header", "repair packet %d: %v", ri, err)
			continue
		}
		if f.ssrc != media[0].SSRC || f.snBase != media[0].SequenceNumber {
			e.Violatef("oracle", "c14:fec-header", "repair packet %d names SSRC %d base %d, batch is SSRC %d base %d", ri, f.ssrc, f.snBase, media[0].SSRC, media[0].SequenceNumber)
			continue
		}
		if len(f.covered) == 0 {
			e.Violatef("oracle", "c14:empty-mask", "repair packet %d protects nothing", ri)
			continue
		}
		bad := false
		for _, off := range f.covered {
			if off >= len(media) {
				e.Violatef("oracle", "c14:mask-names-absent-packet", "repair packet %d: mask names offset %d but the batch has %d packets (mask %v)", ri, off, len(media), f.covered)
				bad = true
				break
			}
			protected[off]++
		}
		if bad {
			continue
		}
		// every single loss in the group must be recoverable byte for byte
		choices := f.covered
		if len(choices) > 16 {
			choices = []int{f.covered[0], f.covered[len(f.covered)/2], f.covered[len(f.covered)-1], f.covered[int(uint(rp.hdr.SequenceNumber))%len(f.covered)]}
		}
		for _, miss := range choices {
			var others [][]byte
			for _, off := range f.covered {
				if off != miss {
					others = append(others, raw[off])
				}
			}
			got, err := c14Recover(f, others, f.snBase+uint16(miss))
			if err != nil {
				e.Violatef("oracle", "c14:recovery", "repair packet %d, missing offset %d: %v", ri, miss, err)
				break
			}
			if !bytes.Equal(got, raw[miss]) {
				e.Violatef("oracle", "c14:recovery", "repair packet %d (mask %v): recovering offset %d (seq %d, %d bytes) gives %d bytes differing at byte %d", ri, f.covered, miss, f.snBase+uint16(miss), len(raw[miss]), len(got), firstDiff(got, raw[miss]))
				break
			}
			e.Probe("recovered")
		}
	}
	for i, n := range protected {
		if n == 0 {
			sig := "c14:unprotected-media-packet"
			if i >= 109 {
				sig = "c14:unprotected-media-packet:offset>=109"
			}
			e.Violatef("oracle", sig, "media packet at offset %d of a batch of %d (FEC count %d, %d repair packets) is protected by no repair packet", i, len(media), nfec, len(repairs))
			break
		}
	}
}

func (c14) Run(e *Env) {
	cfg := cfgOf[c14Cfg](e.Plan)
	ops := opsOf[c14Op](e.Plan)
	e.SetSample(fmt.Sprintf("direct=%v k=%d n=%d streams=%d reuse=%v ops=%d", cfg.Direct, cfg.NumMedia, cfg.NumFEC, cfg.Streams, cfg.Reuse, len(ops)))
	const fecPT = 49
	chk := &c14Check{e: e, fecPT: fecPT, nextSN: map[uint32]uint16{}, haveSN: map[uint32]bool{}}
	if cfg.Direct {
		enc := flexfec.NewFlexEncoder03(fecPT, 9999)
		seq := cfg.BaseSeq[0]
		var batch []rtp.Packet
		for _, o := range ops {
			if !o.Batch {
				batch = append(batch, c14Packet(o, 1234, seq))
				seq++
				continue
			}
			if len(batch) == 0 {
				continue
			}
			orig := make([]rtp.Packet, len(batch))
			for i := range batch {
				orig[i] = rtp.Packet{Header: batch[i].Header.Clone(), Payload: append([]byte{}, batch[i].Payload...)}
			}
			out := enc.EncodeFec(batch, o.N)
			var reps []c14Repair
			for _, p := range out {
				reps = append(reps, c14Repair{hdr: p.Header.Clone(), payload: append([]byte{}, p.Payload...)})
			}
			if len(batch) > 15 {
				e.Probe("mask2_used")
			}
			if len(batch) > 46 {
				e.Probe("mask3_used")
			}
			chk.batch(orig, reps, o.N, 9999)
			batch = nil
		}
		return
	}
	// interceptor path: concurrent streams sharing the encoder's global scratch pool
	f, _ := flexfec.NewFecInterceptor(flexfec.NumMediaPackets(cfg.NumMedia), flexfec.NumFECPackets(cfg.NumFEC))
	ic, err := f.NewInterceptor("")
	if err != nil {
		e.Violatef("oracle", "c14:construct", "%v", err)
		return
	}
	type rec struct {
		hdr rtp.Header
		pl  []byte
	}
	var gs []*simrt.G
	for s := 0; s < cfg.Streams; s++ {
		ssrc := uint32(1000 + s)
		fecSSRC := uint32(5000 + s)
		info := streamInfo(ssrc, 96, 90000)
		info.SSRCForwardErrorCorrection, info.PayloadTypeForwardErrorCorrection = fecSSRC, fecPT
		var out []rec // everything that reached the next writer for this stream, in order
		failed := false // the next writer failed during the current Write
		wrand := rand.New(rand.NewSource(e.Plan.Seed ^ int64(s+1)*0x66656321))
		w := ic.BindLocalStream(info, interceptor.RTPWriterFunc(func(h *rtp.Header, pl []byte, _ interceptor.Attributes) (int, error) {
			simrt.Yield("downstream")
			out = append(out, rec{h.Clone(), append([]byte{}, pl...)})
			if cfg.WErrP > 0 && wrand.Intn(1000) < cfg.WErrP {
				// a transport hiccup on one packet: the rest of the batch and its repair packets are still due
				e.Fault("writer_err")
				failed = true
				return 0, errInjected
			}
			return len(pl), nil
		}))
		wrote := func(err error) {
			if failed != (err != nil) || (err != nil && !errors.Is(err, errInjected)) {
				e.Violatef("oracle", "c14:write-error", "Write returned %v; the next writer failed during the call: %v", err, failed)
			}
			failed = false
		}
		var sops []c14Op
		for _, o := range ops {
			if !o.Batch && o.S == s {
				sops = append(sops, o)
			}
		}
		seq := cfg.BaseSeq[s]
		gs = append(gs, e.Go(fmt.Sprintf("writer%d", s), func() {
			var orig []rtp.Packet
			h := &rtp.Header{}
			var buf []byte
			for _, o := range sops {
				simrt.SleepUntil(us(o.AtUs))
				pkt := c14Packet(o, ssrc, seq)
				seq++
				orig = append(orig, rtp.Packet{Header: pkt.Header.Clone(), Payload: append([]byte{}, pkt.Payload...)})
				if cfg.Reuse {
					*h = pkt.Header.Clone()
					buf = append(buf[:0], pkt.Payload...)
					_, err := w.Write(h, buf, interceptor.Attributes{})
					wrote(err)
					for i := range buf {
						buf[i] ^= 0x77
					}
					for i := range h.CSRC {
						h.CSRC[i] ^= 0xFFFFFFFF
					}
					for _, id := range h.GetExtensionIDs() {
						b := h.GetExtension(id)
						for i := range b {
							b[i] ^= 0x11
						}
					}
					h.Timestamp ^= 0xABCD
				} else {
					_, err := w.Write(&pkt.Header, pkt.Payload, interceptor.Attributes{})
					wrote(err)
				}
			}
			// evaluate this stream's output: media first and unmodified, then the batch's repair packets
			k := int(cfg.NumMedia)
			i := 0
			for b := 0; b+k <= len(orig); b += k {
				var reps []c14Repair
				for j := 0; j < k; j++ {
					if i >= len(out) {
						e.Violatef("oracle", "c14:media-missing", "media packet %d never reached the next writer", b+j)
						return
					}
					want := orig[b+j]
					got := out[i]
					i++
					if got.hdr.SSRC != ssrc {
						e.Violatef("oracle", "c14:media-order", "expected media seq %d at the next writer, got a packet of SSRC %d (repair packets must follow the batch)", want.SequenceNumber, got.hdr.SSRC)
						return
					}
					if d := hdrDiff(&want.Header, &got.hdr, 0); d != "" || !bytes.Equal(want.Payload, got.pl) || want.Header.PaddingSize != got.hdr.PaddingSize {
						e.Violatef("oracle", "c14:media-modified", "media seq %d reached the next writer modified: %s (payload equal: %v, padding size %d vs %d)", want.SequenceNumber, d, bytes.Equal(want.Payload, got.pl), want.Header.PaddingSize, got.hdr.PaddingSize)
					}
				}
				for i < len(out) && out[i].hdr.SSRC != ssrc {
					reps = append(reps, c14Repair{out[i].hdr, out[i].pl})
					i++
				}
				chk.batch(orig[b:b+k], reps, cfg.NumFEC, fecSSRC)
			}
		}))
	}
	e.Wait(gs...)
	ic.Close()
	if cfg.Streams > 1 {
		e.Probe("concurrent_streams")
	}
	if cfg.Reuse {
		e.Fault("caller_reuses_buffers")
	}
}
