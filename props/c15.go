package props

import (
	"bytes"
	"errors"
	"fmt"
	"sort"
	"time"

	"github.com/pion/interceptor"
	"github.com/pion/interceptor/pkg/twcc"
	"github.com/pion/rtp"

	"verif/simrt"
)

// C15: transport-wide sequence numbers are gap-free and unique across streams.

type c15Cfg struct {
	ExtIDs  []int `json:"ext_ids"`              // per stream; 0 = not negotiated
	Writers []int `json:"writers"`              // writer -> stream
	Bulk    int   `json:"bulk"`                 // extra packets written by writer 0 round-robin over streams (wrap run)
	Reuse   bool  `json:"reuse_info,omitempty"` // the caller reuses the extension list of a StreamInfo for the next stream after Bind returned
	// further streams that are bound at the start, never written, and unbound while the others are writing
	ExtraIDs   []int   `json:"extra_ids,omitempty"`   // 0 = not negotiated
	ExtraUnbUs []int64 `json:"extra_unb_us,omitempty"` // when each of them is unbound
}

type c15Op struct {
	W       int   `json:"w"`
	HS      int64 `json:"hs"`
	Len     int   `json:"len"`
	StallUs int64 `json:"stall_us,omitempty"` // downstream stalls before it reads the packet
	Reuse   bool  `json:"reuse,omitempty"`    // caller reuses its previous header object
	GapUs   int64 `json:"gap_us,omitempty"`
	WErr    bool  `json:"werr,omitempty"` // the next writer fails (after it has seen the packet)
}

type c15 struct{}

func init() { register(c15{}) }

func (c15) ID() string { return "C15" }

func (c15) Gen(seed int64, tier string, avoid []string) *Plan {
	p, r := newPlan("C15", seed, tier, avoid)
	var cfg c15Cfg
	ns := 1 + r.Intn(5)
	for s := 0; s < ns; s++ {
		id := 1 + r.Intn(14)
		if ns > 1 && chance(r, 250) {
			id = 0
		}
		cfg.ExtIDs = append(cfg.ExtIDs, id)
	}
	nw := 1 + r.Intn(6)
	for w := 0; w < nw; w++ {
		cfg.Writers = append(cfg.Writers, r.Intn(ns))
	}
	n := pick(r, 20, 60, 150, 400)
	wrapEvery := 40
	if tier == "thorough" {
		n = pick(r, 60, 400, 2000)
		wrapEvery = 8
	}
	if r.Intn(wrapEvery) == 0 {
		cfg.Bulk = 65536 + r.Intn(3000)
	}
	cfg.Reuse = chance(r, 300)
	stallP := pick(r, 0, 50, 300)
	errP := pick(r, 0, 0, 30, 150)
	var ops []c15Op
	for i := 0; i < n; i++ {
		o := c15Op{W: r.Intn(nw), HS: r.Int63(), Len: pick(r, 0, 1, 20, 200, 1200, 1460), Reuse: chance(r, 300)}
		if chance(r, stallP) {
			o.StallUs = int64(pick(r, 0, 100, 1000))
			if o.StallUs == 0 {
				o.StallUs = -1 // yield only
			}
		}
		if chance(r, 200) {
			o.GapUs = int64(r.Intn(2000))
		}
		o.WErr = chance(r, errP)
		ops = append(ops, o)
	}
	if chance(r, 300) {
		for k := 1 + r.Intn(3); k > 0; k-- {
			cfg.ExtraIDs = append(cfg.ExtraIDs, pick(r, 0, 0, 1+r.Intn(14)))
			cfg.ExtraUnbUs = append(cfg.ExtraUnbUs, int64(r.Intn(20000)))
		}
	}
	p.Cfg = mustJSON(cfg)
	setOps(p, ops)
	return p
}

type c15Rec struct {
	stream int
	want   *rtp.Header
	wantPl []byte
	got    *rtp.Header
	gotPl  []byte
}

func (c15) Run(e *Env) {
	cfg := cfgOf[c15Cfg](e.Plan)
	ops := opsOf[c15Op](e.Plan)
	e.SetSample(fmt.Sprintf("streams(ext ids)=%v writers->stream=%v writes=%d bulk=%d", cfg.ExtIDs, cfg.Writers, len(ops), cfg.Bulk))
	f, _ := twcc.NewHeaderExtensionInterceptor()
	ic, _ := f.NewInterceptor("")
	var recs []*c15Rec
	var bulkNums []uint16
	bulkBad := 0
	writers := make([]interceptor.RTPWriter, len(cfg.ExtIDs))
	for s, id := range cfg.ExtIDs {
		info := streamInfo(uint32(5000+s), 100, 90000)
		if id != 0 {
			info.RTPHeaderExtensions = []interceptor.RTPHeaderExtension{{URI: twccURI, ID: id}, {URI: "urn:other", ID: 15}}
		}
		s := s
		writers[s] = ic.BindLocalStream(info, interceptor.RTPWriterFunc(func(h *rtp.Header, pl []byte, a interceptor.Attributes) (int, error) {
			st, _ := a.Get("stall").(int64)
			if st > 0 {
				simrt.Sleep(us(st))
			} else if st < 0 {
				simrt.Yield("downstream")
			}
			if rec, ok := a.Get("rec").(*c15Rec); ok {
				hc := h.Clone()
				rec.got = &hc
				rec.gotPl = append([]byte{}, pl...)
				if fail, _ := a.Get("fail").(bool); fail {
					return 0, errInjected
				}
			} else {
				// bulk mode: O(1) bookkeeping
				var ext rtp.TransportCCExtension
				if b := h.GetExtension(uint8(cfg.ExtIDs[s])); b != nil && ext.Unmarshal(b) == nil {
					c15Bulk(&bulkNums, ext.TransportSequence)
				} else {
					bulkBad++
				}
			}
			return len(pl), nil
		}))
		if cfg.Reuse {
			// Bind has returned: the list is the caller's again (here: recycled for some other description)
			for i := range info.RTPHeaderExtensions {
				info.RTPHeaderExtensions[i] = interceptor.RTPHeaderExtension{URI: "urn:recycled", ID: 1 + (id+6+i)%14}
			}
			e.Fault("caller_reuses_stream_info")
		}
	}
	var gs []*simrt.G
	for x, id := range cfg.ExtraIDs {
		info := streamInfo(uint32(7000+x), 100, 90000)
		if id != 0 {
			info.RTPHeaderExtensions = []interceptor.RTPHeaderExtension{{URI: twccURI, ID: id}}
		}
		ic.BindLocalStream(info, interceptor.RTPWriterFunc(func(*rtp.Header, []byte, interceptor.Attributes) (int, error) { return 0, nil }))
		at := cfg.ExtraUnbUs[x]
		gs = append(gs, e.Go(fmt.Sprintf("unbind%d", x), func() {
			simrt.SleepUntil(us(at))
			e.Fault("unbind_other_stream")
			ic.UnbindLocalStream(info) // the numbering of the streams that stay is none of its business
		}))
	}
	byW := make([][]c15Op, len(cfg.Writers))
	for _, o := range ops {
		if o.W < len(byW) {
			byW[o.W] = append(byW[o.W], o)
		}
	}
	for w, st := range cfg.Writers {
		wops := byW[w]
		gs = append(gs, e.Go(fmt.Sprintf("writer%d", w), func() {
			var prev *rtp.Header
			for i, o := range wops {
				if o.GapUs > 0 {
					simrt.Sleep(us(o.GapUs))
				}
				h := hdrFromSeed(o.HS, uint32(5000+st), 100, uint16(i), uint32(i)*90, uint8(cfg.ExtIDs[st]))
				pl := payloadFromSeed(o.HS, o.Len)
				wc := h.Clone()
				rec := &c15Rec{stream: st, want: &wc, wantPl: append([]byte{}, pl...)}
				if o.Reuse && prev != nil {
					// the caller reuses its header object: copy the new packet's fields into it
					*prev = h.Clone()
					h = prev
				}
				c15Append(&recs, rec)
				attr := interceptor.Attributes{"rec": rec}
				if o.StallUs != 0 {
					attr["stall"] = o.StallUs
					e.Fault("stall_writer")
				}
				if o.WErr {
					attr["fail"] = true
					e.Fault("writer_err")
				}
				n, err := writers[st].Write(h, pl, attr)
				if o.WErr {
					if !errors.Is(err, errInjected) {
						e.Violatef("oracle", "c15:write-result", "the next writer failed, Write returned (%d, %v)", n, err)
					}
				} else if err != nil || n != len(pl) {
					e.Violatef("oracle", "c15:write-result", "Write returned (%d, %v) for a %d-byte payload", n, err, len(pl))
				}
				prev = h
			}
		}))
	}
	if cfg.Bulk > 0 {
		gs = append(gs, e.Go("bulk", func() {
			var neg []int
			for s, id := range cfg.ExtIDs {
				if id != 0 {
					neg = append(neg, s)
				}
			}
			if len(neg) == 0 {
				return
			}
			h := &rtp.Header{Version: 2, PayloadType: 100}
			pl := []byte{1, 2, 3}
			for i := 0; i < cfg.Bulk; i++ {
				s := neg[i%len(neg)]
				h.SSRC = uint32(5000 + s)
				h.SequenceNumber = uint16(i)
				h.Extensions, h.Extension = nil, false
				writers[s].Write(h, pl, interceptor.Attributes{})
			}
		}))
	}
	e.Wait(gs...)
	ic.Close()
	// oracle
	var nums []uint16
	nums = append(nums, bulkNums...)
	if bulkBad > 0 {
		e.Violatef("oracle", "c15:extension-missing", "%d bulk packets left without a parsable transport-cc extension", bulkBad)
	}
	for _, rec := range recs {
		e.Check()
		if rec.got == nil {
			e.Violatef("oracle", "c15:not-forwarded", "packet of stream %d never reached the next writer", rec.stream)
			continue
		}
		id := uint8(cfg.ExtIDs[rec.stream])
		if !bytes.Equal(rec.gotPl, rec.wantPl) {
			e.Violatef("oracle", "c15:payload-changed", "payload differs on stream %d", rec.stream)
		}
		if d := hdrDiff(rec.want, rec.got, id); d != "" {
			e.Violatef("oracle", "c15:header-changed", "stream %d (ext id %d): %s", rec.stream, id, d)
		}
		if id == 0 {
			if rec.got.Extension != rec.want.Extension || rec.got.ExtensionProfile != rec.want.ExtensionProfile {
				e.Violatef("oracle", "c15:header-changed", "non-negotiated stream %d: extension bit/profile changed", rec.stream)
			}
			continue
		}
		b := rec.got.GetExtension(id)
		var ext rtp.TransportCCExtension
		if b == nil || len(b) != 2 || ext.Unmarshal(b) != nil {
			e.Violatef("oracle", "c15:extension-missing", "stream %d packet left without a valid transport-cc extension (id %d): %x", rec.stream, id, b)
			continue
		}
		nums = append(nums, ext.TransportSequence)
	}
	c15Consecutive(e, nums)
	if len(nums) > 65536 {
		e.Probe("wrap_crossed")
	}
	if len(cfg.Writers) > 1 {
		e.Probe("concurrent_writers")
	}
	_ = time.Second
}

//go:norace
func c15Append(recs *[]*c15Rec, r *c15Rec) { *recs = append(*recs, r) }

//go:norace
func c15Bulk(nums *[]uint16, n uint16) { *nums = append(*nums, n) }

// c15Consecutive checks that the multiset of assigned numbers is one run of
// consecutive values modulo 2^16 (first value free).
func c15Consecutive(e *Env, nums []uint16) {
	n := len(nums)
	if n == 0 {
		return
	}
	var cnt [65536]int
	for _, v := range nums {
		cnt[v]++
	}
	q, rem := n/65536, n%65536
	// every value occurs q or q+1 times, and those with q+1 form one cyclic interval of length rem
	var hi []int
	for v, c := range cnt {
		switch c {
		case q:
		case q + 1:
			hi = append(hi, v)
		default:
			e.Violatef("oracle", "c15:not-consecutive", "transport sequence number %d assigned %d times among %d packets (expected %d or %d): duplicates/gaps", v, c, n, q, q+1)
			return
		}
	}
	if len(hi) != rem {
		e.Violatef("oracle", "c15:not-consecutive", "%d packets: %d values occur %d times, expected %d", n, len(hi), q+1, rem)
		return
	}
	if rem > 0 {
		sort.Ints(hi)
		breaks := 0
		for i := range hi {
			next := hi[(i+1)%len(hi)]
			if (hi[i]+1)%65536 != next {
				breaks++
			}
		}
		if breaks > 1 {
			e.Violatef("oracle", "c15:not-consecutive", "%d packets: assigned numbers do not form one consecutive run (values %v...)", n, hi[:min(len(hi), 20)])
		}
	}
}
