package props

import (
	"bytes"
	"errors"
	"fmt"
	"math"
	"math/rand"
	"sort"
	"time"

	"github.com/pion/interceptor"
	"github.com/pion/interceptor/pkg/cc"
	"github.com/pion/interceptor/pkg/gcc"
	"github.com/pion/rtcp"
	"github.com/pion/rtp"

	"verif/simrt"
)

// C16: the GCC send-side estimator's target stays positive, finite, inside the
// configured bounds, and getter / change callback / pacer agree.
//
// Parties: a (closed-loop) sender writing through the estimator's pacer, a path
// with a bottleneck queue, base delay and loss, a receiver that reports what
// arrived - truthfully or with forged arrival-time patterns -, observers that
// sample the getter and the statistics, and a closer.  The scheduler decides how
// the estimator's own goroutines (arrival-group accumulator, rate calculator,
// pacer loop, one goroutine per change callback) interleave with them.

type c16Cfg struct {
	Min     int    `json:"min"`
	Init    int    `json:"init"`
	Max     int    `json:"max"`
	Pacer   string `json:"pacer"` // spy_noop | spy_leaky | default
	Via     string `json:"via"`   // direct | interceptor
	TWCC    bool   `json:"twcc"`
	Streams int    `json:"streams"`
	LinkBps int    `json:"link_bps"`
	DelayUs int64  `json:"delay_us"`
	QueueMs int    `json:"queue_ms"`
	BaseUs  int64  `json:"base_us"`
	Closed  bool   `json:"closed_loop"`
	CloseAt int64  `json:"close_at_us"` // 0: only at the end
	LossPm  int    `json:"path_loss_pm"`
	CbUs    int64  `json:"callback_us"` // how long the application's change callback takes (0: it only yields)
}

type c16Op struct {
	K      string `json:"k"` // s send, f feedback, g observe
	AtUs   int64  `json:"at_us"`
	S      int    `json:"s,omitempty"`
	N      int    `json:"n,omitempty"`
	Len    int    `json:"len,omitempty"`
	Mode   int    `json:"mode,omitempty"` // arrival pattern of the feedback
	LossPm int    `json:"loss_pm,omitempty"`
	Seed   int64  `json:"seed,omitempty"`
	Again  int    `json:"again,omitempty"` // 1 delivered twice, 2 an earlier feedback is delivered again afterwards
}

const (
	c16True = iota
	c16Identical
	c16Decreasing
	c16HugeGaps
	c16Jitter
	c16AllLost
	c16Modes
)

var c16ModeNames = []string{"true", "identical_arrivals", "decreasing_arrivals", "huge_gaps", "jitter", "all_lost"}

type c16 struct{}

func init() { register(c16{}) }

func (c16) ID() string { return "C16" }

func (c16) Gen(seed int64, tier string, avoid []string) *Plan {
	p, r := newPlan("C16", seed, tier, avoid)
	avoidSet := map[string]bool{}
	for _, a := range avoid {
		avoidSet[a] = true
	}
	cfg := c16Cfg{Pacer: pick(r, "spy_noop", "spy_noop", "spy_leaky", "default"), Via: pick(r, "direct", "interceptor"), TWCC: chance(r, 650), Streams: pick(r, 1, 1, 2, 3)}
	cfg.Min = pick(r, 1, 5_000, 5_000, 50_000, 150_000, 1_000_000, 20_000_000)
	cfg.Max = pick(r, cfg.Min, 2*cfg.Min, 400_000, 50_000_000, 50_000_000, 1_000_000_000, 1<<40)
	if cfg.Max < cfg.Min {
		cfg.Max = cfg.Min
	}
	cfg.Init = pick(r, cfg.Min, cfg.Max, cfg.Min+(cfg.Max-cfg.Min)/2, int(math.Sqrt(float64(cfg.Min))*math.Sqrt(float64(cfg.Max))), 300_000, 2_000_000)
	if cfg.Init < cfg.Min {
		cfg.Init = cfg.Min
	}
	if cfg.Init > cfg.Max {
		cfg.Init = cfg.Max
	}
	cfg.LinkBps = pick(r, 100_000, 500_000, 2_000_000, 10_000_000, 1_000_000_000)
	cfg.DelayUs = int64(pick(r, 500, 10_000, 50_000, 300_000))
	cfg.QueueMs = pick(r, 20, 200, 1000)
	cfg.BaseUs = pick(r, int64(0), 0, 3_600_000_000, 290*3_600_000_000)
	cfg.Closed = chance(r, 600)
	cfg.LossPm = pick(r, 0, 0, 10, 100, 500)
	cfg.CbUs = int64(pick(r, 0, 0, 50, 3000))
	n := pick(r, 20, 60, 150)
	if tier == "thorough" {
		n = pick(r, 60, 200, 600)
	}
	forged := pick(r, 0, 200, 600, 1000)
	lossP := pick(r, 0, 0, 30, 200, 600, 1000)
	var ops []c16Op
	at := int64(2000)
	for i := 0; i < n; i++ {
		at += int64(pick(r, 3000, 5000, 10000, 20000, 33000))
		ops = append(ops, c16Op{K: "s", AtUs: at, S: r.Intn(cfg.Streams), N: pick(r, 1, 1, 2, 5, 12), Len: pick(r, 20, 200, 1000, 1200), Seed: r.Int63()})
		if chance(r, 250) {
			o := c16Op{K: "f", AtUs: at + int64(r.Intn(30000)), Seed: r.Int63(), Again: pick(r, 0, 0, 0, 1, 2)}
			if chance(r, forged) {
				o.Mode = 1 + r.Intn(c16Modes-1)
			}
			if chance(r, 700) {
				o.LossPm = lossP
			} else {
				o.LossPm = pick(r, 0, 100, 500, 1000)
			}
			ops = append(ops, o)
		}
		if chance(r, 150) {
			ops = append(ops, c16Op{K: "g", AtUs: at + int64(r.Intn(20000)), N: pick(r, 1, 3, 8)})
		}
	}
	ops = append(ops, c16Op{K: "f", AtUs: at + 400_000, Seed: r.Int63()})
	if chance(r, 300) {
		cfg.CloseAt = 2000 + r.Int63n(at)
		if chance(r, 700) {
			// Close while a feedback is being written
			var fs []int64
			for _, o := range ops {
				if o.K == "f" {
					fs = append(fs, o.AtUs)
				}
			}
			cfg.CloseAt = pick(r, fs...)
		}
	}
	sort.SliceStable(ops, func(i, j int) bool { return ops[i].AtUs < ops[j].AtUs })
	p.Cfg = mustJSON(cfg)
	setOps(p, ops)
	return p
}

type c16Pkt struct {
	ssrc   uint32
	seq    uint16
	tseq   uint16
	size   int
	wireUs int64
	arrUs  int64
	lost   bool
	fed    bool
}

type c16Pub struct {
	v    int
	step int
}

// c16Spy wraps a real pacer and records what rate it is told.
type c16Spy struct {
	inner gcc.Pacer
	st    *c16State
}

func (p *c16Spy) Write(h *rtp.Header, b []byte, a interceptor.Attributes) (int, error) {
	return p.inner.Write(h, b, a)
}
func (p *c16Spy) AddStream(ssrc uint32, w interceptor.RTPWriter) { p.inner.AddStream(ssrc, w) }
func (p *c16Spy) Close() error                                   { return p.inner.Close() }
func (p *c16Spy) SetTargetBitrate(r int) {
	p.st.bound("the rate given to the pacer", r)
	p.st.pub = append(p.st.pub, c16Pub{r, p.st.e.S.Step()})
	p.inner.SetTargetBitrate(r)
}

type c16State struct {
	e        *Env
	cfg      c16Cfg
	pub      []c16Pub // what the pacer was told, in order (spy pacers)
	cbs      []c16Pub // what the change callback was given, in the order the calls began
	cbDone   []c16Pub // ... in the order the calls completed
	closedAt int      // step at which Close returned (0: not yet)
	closing  bool
}

func (st *c16State) bound(what string, v int) {
	st.e.Check()
	if v <= 0 || v < st.cfg.Min || v > st.cfg.Max {
		sig := "c16:target-out-of-bounds"
		if v > 0 && v < st.cfg.Min {
			sig = "c16:target-below-configured-minimum"
		} else if v > st.cfg.Max {
			sig = "c16:target-above-configured-maximum"
		}
		st.e.Violatef("oracle", sig, "%s is %d bit/s; configured minimum %d, initial %d, maximum %d", what, v, st.cfg.Min, st.cfg.Init, st.cfg.Max)
	}
}

func c16NTP(t time.Time) uint32 {
	s := uint64(t.Unix()) + 2208988800
	f := uint64(t.Nanosecond()) << 32 / 1_000_000_000
	return uint32((s<<32 | f) >> 16)
}

func (c16) Run(e *Env) {
	cfg := cfgOf[c16Cfg](e.Plan)
	ops := opsOf[c16Op](e.Plan)
	e.SetSample(fmt.Sprintf("min=%d init=%d max=%d pacer=%s via=%s twcc=%v streams=%d link=%d closed_loop=%v ops=%d", cfg.Min, cfg.Init, cfg.Max, cfg.Pacer, cfg.Via, cfg.TWCC, cfg.Streams, cfg.LinkBps, cfg.Closed, len(ops)))
	e.StrandedIsViolation = true
	st := &c16State{e: e, cfg: cfg}
	const extID = 3
	opts := []gcc.Option{gcc.WithLoggerFactory(nopLoggerFactory{}), gcc.SendSideBWEInitialBitrate(cfg.Init), gcc.SendSideBWEMinBitrate(cfg.Min), gcc.SendSideBWEMaxBitrate(cfg.Max)}
	switch cfg.Pacer {
	case "spy_noop":
		opts = append(opts, gcc.SendSideBWEPacer(&c16Spy{inner: gcc.NewNoOpPacer(), st: st}))
	case "spy_leaky":
		opts = append(opts, gcc.SendSideBWEPacer(&c16Spy{inner: gcc.NewLeakyBucketPacer(cfg.Init), st: st}))
	}
	var bwe *gcc.SendSideBWE
	var ic interceptor.Interceptor
	var rtcpIn []byte
	var rtcpR interceptor.RTCPReader
	mk := func() (cc.BandwidthEstimator, error) {
		b, err := gcc.NewSendSideBWE(opts...)
		bwe = b
		return b, err
	}
	if cfg.Via == "interceptor" {
		f, _ := cc.NewInterceptor(mk)
		var err error
		if ic, err = f.NewInterceptor("c16"); err != nil {
			e.Violatef("oracle", "c16:construct", "%v", err)
			return
		}
		rtcpR = ic.BindRTCPReader(interceptor.RTCPReaderFunc(func(b []byte, a interceptor.Attributes) (int, interceptor.Attributes, error) {
			return copy(b, rtcpIn), a, nil
		}))
	} else if _, err := mk(); err != nil {
		e.Violatef("oracle", "c16:construct", "%v", err)
		return
	}
	bwe.OnTargetBitrateChange(func(v int) {
		st.bound("the rate given to the change callback", v)
		st.cbs = append(st.cbs, c16Pub{v, e.S.Step()})
		// an application's callback naturally asks the estimator
		st.bound("GetTargetBitrate() (inside the change callback)", bwe.GetTargetBitrate())
		bwe.GetStats()
		// an application's callback is not atomic: it takes time and may be descheduled
		if cfg.CbUs > 0 {
			simrt.Sleep(us(cfg.CbUs))
		} else {
			simrt.Yield("callback-body")
		}
		st.cbDone = append(st.cbDone, c16Pub{v, e.S.Step()})
	})
	// ---- the path
	var wire []*c16Pkt
	byT := map[uint16]*c16Pkt{}
	byS := map[[2]uint32]*c16Pkt{}
	linkFree := int64(0)
	lossRng := rand.New(rand.NewSource(e.Plan.Seed ^ 0x1055))
	down := interceptor.RTPWriterFunc(func(h *rtp.Header, pl []byte, a interceptor.Attributes) (int, error) {
		now := int64(e.S.Now() / 1000)
		p := &c16Pkt{ssrc: h.SSRC, seq: h.SequenceNumber, size: h.MarshalSize() + len(pl), wireUs: now}
		if cfg.TWCC {
			var ext rtp.TransportCCExtension
			if ext.Unmarshal(h.GetExtension(extID)) == nil {
				p.tseq = ext.TransportSequence
				byT[p.tseq] = p
			}
		}
		byS[[2]uint32{p.ssrc, uint32(p.seq)}] = p
		start := max(linkFree, now)
		if start-now > int64(cfg.QueueMs)*1000 {
			p.lost = true
			e.Fault("queue_overflow_drop")
		} else if lossRng.Intn(1000) < cfg.LossPm {
			p.lost = true
			e.Fault("path_drop")
		} else {
			linkFree = start + int64(float64(p.size*8)/float64(cfg.LinkBps)*1e6)
			p.arrUs = linkFree + cfg.DelayUs
			if start > now {
				e.Probe("bottleneck_queueing")
			}
		}
		wire = append(wire, p)
		return len(pl), nil
	})
	var writers []interceptor.RTPWriter
	for s := 0; s < cfg.Streams; s++ {
		info := streamInfo(uint32(900+s), 96, 90000)
		if cfg.TWCC {
			info.RTPHeaderExtensions = []interceptor.RTPHeaderExtension{{URI: twccURI, ID: extID}}
		}
		if ic != nil {
			writers = append(writers, ic.BindLocalStream(info, down))
		} else {
			writers = append(writers, bwe.AddStream(info, down))
		}
	}
	// getter sample with its version window
	sample := func(who string) int {
		lo := len(st.pub)
		v := bwe.GetTargetBitrate()
		hi := len(st.pub)
		st.bound("GetTargetBitrate() ("+who+")", v)
		if cfg.Pacer != "default" {
			ok := false
			if lo == 0 && v == cfg.Init {
				ok = true
			}
			for i := max(lo-1, 0); i < hi; i++ {
				if st.pub[i].v == v {
					ok = true
				}
			}
			if !ok {
				prev := cfg.Init
				if lo > 0 {
					prev = st.pub[lo-1].v
				}
				e.Violatef("oracle", "c16:getter-differs-from-pacer-rate", "GetTargetBitrate() returned %d; the pacer was last told %d (and %d more rates while the call ran)", v, prev, hi-lo)
			}
		}
		return v
	}
	closeIt := func() {
		if st.closing {
			return
		}
		st.closing = true
		var err error
		if ic != nil {
			err = ic.Close()
		} else {
			err = bwe.Close()
		}
		if err != nil {
			e.Violatef("oracle", "c16:close-error", "Close: %v", err)
		}
		st.closedAt = e.S.Step()
		e.Fault("close")
	}
	feed := func(raw []byte, what string) {
		if _, perr := rtcp.Unmarshal(raw); perr != nil {
			// (a transport-cc feedback without any received packet; pion/rtcp cannot parse it, nothing reaches the estimator)
			e.Probe("feedback_unparseable_by_pion_rtcp")
			return
		}
		begun := e.S.Step()
		orig := append([]byte{}, raw...)
		defer func() {
			if !bytes.Equal(orig, raw) {
				e.Violatef("oracle", "c16:feedback-bytes-modified", "the %s feedback's bytes were modified while it was processed:\n%x\n%x", what, orig, raw)
			}
		}()
		closedBefore := st.closedAt != 0 && st.closedAt < begun
		var err error
		if rtcpR != nil {
			rtcpIn = raw
			_, _, err = rtcpR.Read(make([]byte, max(1500, len(raw))), interceptor.Attributes{})
		} else {
			var pkts []rtcp.Packet
			if pkts, err = rtcp.Unmarshal(raw); err != nil {
				e.Violatef("oracle", "c16:forger", "pion/rtcp rejects the %s feedback: %v", what, err)
				return
			}
			err = bwe.WriteRTCP(pkts, nil)
		}
		e.Check()
		switch {
		case closedBefore && !errors.Is(err, gcc.ErrSendSideBWEClosed):
			e.Violatef("oracle", "c16:feedback-after-close", "feedback written after Close returned did not fail with ErrSendSideBWEClosed: %v", err)
		case closedBefore:
			e.Probe("feedback_after_close_rejected")
		case err != nil && errors.Is(err, gcc.ErrSendSideBWEClosed) && !st.closing:
			e.Violatef("oracle", "c16:closed-error-before-close", "feedback failed with ErrSendSideBWEClosed although Close was never called")
		case err != nil:
			e.Probe("feedback_rejected")
		default:
			e.Probe("feedback_accepted")
		}
	}
	// ---- sender
	var sops, fops, gops []c16Op
	for _, o := range ops {
		switch o.K {
		case "s":
			sops = append(sops, o)
		case "f":
			fops = append(fops, o)
		case "g":
			gops = append(gops, o)
		}
	}
	sender := e.Go("sender", func() {
		seqs := make([]uint16, cfg.Streams)
		tseq := uint16(e.Plan.Seed)
		credit := 0.0
		last := int64(0)
		for _, o := range sops {
			simrt.SleepUntil(us(o.AtUs))
			if st.closing {
				return
			}
			n := o.N
			if cfg.Closed {
				// send what the estimator allows
				credit += float64(sample("sender")) * float64(o.AtUs-last) / 1e6 / 8
				n = min(int(credit)/(o.Len+12), 25)
				credit -= float64(n * (o.Len + 12))
				if credit > 30000 {
					credit = 30000
				}
			}
			last = o.AtUs
			for i := 0; i < n; i++ {
				s := o.S
				h := hdrFromSeed(o.Seed+int64(i), uint32(900+s), 96, seqs[s], uint32(seqs[s])*3000, extID)
				if cfg.TWCC {
					ext, _ := (&rtp.TransportCCExtension{TransportSequence: tseq}).Marshal()
					if err := h.SetExtension(extID, ext); err != nil {
						h.Extensions, h.Extension, h.ExtensionProfile = nil, false, 0
						_ = h.SetExtension(extID, ext)
					}
					tseq++
				}
				seqs[s]++
				_, _ = writers[s].Write(h, payloadFromSeed(o.Seed+int64(i), o.Len), interceptor.Attributes{})
			}
		}
	})
	// ---- receiver
	receiver := e.Go("receiver", func() {
		var earlier [][]byte
		nextT := uint16(e.Plan.Seed)
		nextS := map[uint32]uint16{}
		for _, o := range fops {
			simrt.SleepUntil(us(o.AtUs))
			now := int64(e.S.Now() / 1000)
			fr := rand.New(rand.NewSource(o.Seed))
			raw := c16Build(e, cfg, o, fr, now, wire, byT, byS, &nextT, nextS)
			if raw == nil {
				continue
			}
			e.Fault("feedback_" + c16ModeNames[o.Mode])
			if o.LossPm > 0 {
				e.Fault("reported_loss")
			}
			feed(raw, c16ModeNames[o.Mode])
			switch o.Again {
			case 1:
				e.Fault("feedback_duplicated")
				feed(raw, "duplicated")
			case 2:
				if len(earlier) > 0 {
					e.Fault("feedback_reordered")
					feed(earlier[fr.Intn(len(earlier))], "earlier")
				}
			}
			earlier = append(earlier, raw)
		}
	})
	observer := e.Go("observer", func() {
		for _, o := range gops {
			simrt.SleepUntil(us(o.AtUs))
			for i := 0; i < o.N; i++ {
				sample("observer")
				for k, v := range bwe.GetStats() {
					if f, ok := v.(float64); ok && (math.IsNaN(f) || math.IsInf(f, 0)) {
						e.Probe("stats_not_finite_" + k)
					}
				}
				simrt.Yield("observe")
			}
		}
	})
	gs := []*simrt.G{sender, receiver, observer}
	if cfg.CloseAt > 0 {
		gs = append(gs, e.Go("closer", func() {
			simrt.SleepUntil(us(cfg.CloseAt))
			closeIt()
		}))
	}
	e.Wait(gs...)
	// ---- quiescence: no feedback in flight, every callback goroutine has run
	simrt.Sleep(2 * time.Second)
	for i := 0; i < 120 && (len(st.cbDone) != len(st.cbs) || len(st.cbDone) < len(st.pub)); i++ {
		simrt.Sleep(time.Second) // slow callbacks are delivered one after the other
	}
	final := sample("after quiescence")
	if cfg.Pacer != "default" {
		want := cfg.Init
		if len(st.pub) > 0 {
			want = st.pub[len(st.pub)-1].v
		}
		if final != want {
			e.Violatef("oracle", "c16:getter-differs-from-pacer-rate", "after quiescence GetTargetBitrate() is %d, the pacer was last told %d", final, want)
		}
		// every rate change reaches the callback exactly once
		a, b := make([]int, 0, len(st.pub)), make([]int, 0, len(st.cbs))
		for _, p := range st.pub {
			a = append(a, p.v)
		}
		for _, c := range st.cbs {
			b = append(b, c.v)
		}
		sort.Ints(a)
		sort.Ints(b)
		if fmt.Sprint(a) != fmt.Sprint(b) {
			e.Violatef("oracle", "c16:callback-values-differ-from-pacer-rates", "the pacer was told %d rates %v, the change callback received %d values %v", len(st.pub), c16Vals(st.pub), len(st.cbs), c16Vals(st.cbs))
		}
	} else if rate, f, ok := gcc.XPacerTarget(bwe); ok {
		e.Check()
		want := int(f * float64(final))
		if len(st.cbs) == 0 && final == cfg.Init {
			want = cfg.Init // never told anything: still the construction-time rate
		}
		if rate != want {
			e.Violatef("oracle", "c16:pacer-rate-differs", "after quiescence GetTargetBitrate() is %d but the built-in pacer works with %d (expected %d = %.1f x target)", final, rate, want, f)
		}
	}
	if len(st.cbs) > 0 {
		e.Probe("target_changed")
		if lastCb := st.cbs[len(st.cbs)-1].v; lastCb != final {
			e.Violatef("oracle", "c16:last-callback-stale", "after quiescence the most recent change callback carried %d but GetTargetBitrate() returns %d (callbacks ran in the order %v)", lastCb, final, c16Vals(st.cbs))
		}
		if n := len(st.cbDone); n != len(st.cbs) {
			e.Violatef("oracle", "c16:callback-unfinished", "%d change callbacks began, %d completed", len(st.cbs), n)
		} else if lastDone := st.cbDone[n-1].v; lastDone != final {
			e.Violatef("oracle", "c16:last-callback-stale", "after quiescence the change callback that completed last carried %d but GetTargetBitrate() returns %d (callbacks overlapped; they completed in the order %v)", lastDone, final, c16Vals(st.cbDone))
		}
		lo, hi := st.cbs[0].v, st.cbs[0].v
		for _, c := range st.cbs {
			lo, hi = min(lo, c.v), max(hi, c.v)
		}
		if lo < cfg.Init {
			e.Probe("target_decreased")
		}
		if hi > cfg.Init {
			e.Probe("target_increased")
		}
		if lo == cfg.Min {
			e.Probe("target_hit_minimum")
		}
		if hi == cfg.Max {
			e.Probe("target_hit_maximum")
		}
	}
	closeIt()
	// after Close: feedback fails with the documented error, the getter still answers within bounds
	if cfg.TWCC {
		feed(encodeTWCC(1, 900, uint16(e.Plan.Seed), 1, 0, []twccSym{{Recv: true, DeltaUs: 250}}, rand.New(rand.NewSource(1)), false), "post-close")
	} else {
		feed(encodeCCFB(1, []ccfbIn{{SSRC: 900, Begin: 0, Metrics: []ccfbMetric{{Received: true}}}}, c16NTP(time.Now())), "post-close")
	}
	sample("after close")
}

func c16Vals(ps []c16Pub) []int {
	out := make([]int, len(ps))
	for i, p := range ps {
		out[i] = p.v
	}
	if len(out) > 12 {
		out = out[len(out)-12:]
	}
	return out
}

// c16Build makes the receiver's next feedback: everything sent since the last
// feedback up to the newest arrived packet, with the arrival pattern of o.Mode.
func c16Build(e *Env, cfg c16Cfg, o c16Op, fr *rand.Rand, now int64, wire []*c16Pkt, byT map[uint16]*c16Pkt, byS map[[2]uint32]*c16Pkt, nextT *uint16, nextS map[uint32]uint16) []byte {
	arrived := func(p *c16Pkt) bool { return p != nil && !p.lost && p.arrUs <= now }
	// forged arrival clock (receiver time, us)
	clock := cfg.BaseUs + now
	step := func(p *c16Pkt) int64 {
		switch o.Mode {
		case c16True:
			return cfg.BaseUs + p.arrUs
		case c16Identical:
			return clock
		case c16Decreasing:
			clock -= int64(fr.Intn(10000))
			return clock
		case c16HugeGaps:
			clock += int64(1_000_000 + fr.Intn(7_000_000))
			return clock
		default:
			clock += int64(fr.Intn(40000)) - 15000
			return clock
		}
	}
	if cfg.TWCC {
		// range: nextT .. newest arrived number
		hi, found := *nextT, false
		for _, p := range wire {
			if arrived(p) && int16(p.tseq-*nextT) >= 0 && (!found || int16(p.tseq-hi) > 0) {
				hi, found = p.tseq, true
			}
		}
		if !found {
			return nil
		}
		n := int(hi-*nextT) + 1
		if n > 400 {
			n = 400
		}
		syms := make([]twccSym, n)
		var ref int64 = -1
		var prev int64
		for i := 0; i < n; i++ {
			p := byT[*nextT+uint16(i)]
			// (a transport-cc feedback without any received packet cannot be expressed: the last one always arrives)
			if !arrived(p) || ((o.Mode == c16AllLost || fr.Intn(1000) < o.LossPm) && i != n-1) {
				continue
			}
			p.fed = true
			t := step(p) / 250 * 250
			if t < 0 {
				t = 0
			}
			if ref < 0 {
				ref = t / 64000
				prev = ref * 64000
			}
			d := t - prev
			d = max(min(d, 32767*250), -32768*250)
			syms[i] = twccSym{Recv: true, DeltaUs: d}
			prev += d
		}
		if ref < 0 {
			ref = (cfg.BaseUs + now) / 64000
		}
		*nextT += uint16(n)
		return encodeTWCC(4242, 900, *nextT-uint16(n), uint32(ref)&0xFFFFFF, uint8(fr.Intn(256)), syms, fr, false)
	}
	ts := c16NTP(time.Now())
	var blocks []ccfbIn
	for s := 0; s < cfg.Streams; s++ {
		ssrc := uint32(900 + s)
		begin := nextS[ssrc]
		hi, found := begin, false
		for _, p := range wire {
			if p.ssrc == ssrc && arrived(p) && int16(p.seq-begin) >= 0 && (!found || int16(p.seq-hi) > 0) {
				hi, found = p.seq, true
			}
		}
		if !found {
			continue
		}
		n := min(int(hi-begin)+1, 400)
		blk := ccfbIn{SSRC: ssrc, Begin: begin}
		for i := 0; i < n; i++ {
			p := byS[[2]uint32{ssrc, uint32(begin + uint16(i))}]
			m := ccfbMetric{Seq: begin + uint16(i)}
			if arrived(p) && o.Mode != c16AllLost && fr.Intn(1000) >= o.LossPm {
				p.fed = true
				m.Received = true
				m.ECN = uint8(fr.Intn(4))
				ago := cfg.BaseUs + now - step(p) // how long before the report it arrived (us)
				ato := ago * 1024 / 1_000_000
				switch {
				case ato < 0:
					ato = 0
				case ato > 0x1FFD:
					ato = int64(pick(fr, 0x1FFE, 0x1FFF))
				}
				m.ATO = uint16(ato)
			}
			blk.Metrics = append(blk.Metrics, m)
		}
		nextS[ssrc] = begin + uint16(n)
		blocks = append(blocks, blk)
	}
	if len(blocks) == 0 {
		return nil
	}
	return encodeCCFB(4242, blocks, ts)
}
