package props

import (
	"bytes"
	"fmt"
	"sort"
	"sync"
	"time"

	"github.com/pion/interceptor"
	"github.com/pion/interceptor/pkg/gcc"
	"github.com/pion/interceptor/pkg/pacing"
	"github.com/pion/rtp"

	"verif/simrt"
)

// C17: pacers deliver each accepted packet once, in order, intact, within the rate.

type c17Cfg struct {
	Mode       string `json:"mode"` // pacing | leaky | noop
	Rate       int    `json:"rate"` // bits per second
	IntervalMs int    `json:"interval_ms"`
	Streams    int    `json:"streams"`
	Writers    []int  `json:"writers"`            // writer -> stream
	StallUs    int64  `json:"stall_us"`           // the next writer stalls this long before it reads the packet (0: yields only)
	LateAdd    bool   `json:"late_add,omitempty"` // leaky bucket pacer: the last stream is added only when its first packet is about to be written
}

type c17Op struct {
	K    string `json:"k"` // w, rate
	W    int    `json:"w,omitempty"`
	AtUs int64  `json:"at_us"`
	HS   int64  `json:"hs,omitempty"`
	Len  int    `json:"len,omitempty"`
	Rate int    `json:"rate,omitempty"`
	WErr bool   `json:"werr,omitempty"` // the next writer fails for this packet (after it has seen it)
}

type c17 struct{}

func init() { register(c17{}) }

func (c17) ID() string { return "C17" }

func (c17) Gen(seed int64, tier string, avoid []string) *Plan {
	p, r := newPlan("C17", seed, tier, avoid)
	avoidSet := map[string]bool{}
	for _, a := range avoid {
		avoidSet[a] = true
	}
	cfg := c17Cfg{Mode: pick(r, "pacing", "pacing", "pacing", "leaky", "leaky", "noop"), IntervalMs: pick(r, 1, 2, 5, 5, 10, 20), Streams: pick(r, 1, 2, 3)}
	cfg.Rate = pick(r, 100_000, 500_000, 1_000_000, 2_000_000, 8_000_000, 50_000_000)
	cfg.StallUs = int64(pick(r, 0, 0, 200, 2000))
	cfg.LateAdd = cfg.Mode == "leaky" && cfg.Streams > 1 && chance(r, 500)
	errP := pick(r, 0, 0, 30, 150)
	nw := cfg.Streams + r.Intn(2)
	for w := 0; w < nw; w++ {
		cfg.Writers = append(cfg.Writers, w%cfg.Streams)
	}
	n := pick(r, 10, 40, 100)
	if tier == "thorough" {
		n = pick(r, 40, 150, 400)
	}
	var ops []c17Op
	at := int64(r.Intn(3000))
	burstP := pick(r, 100, 500, 900)
	for i := 0; i < n; i++ {
		if !chance(r, burstP) {
			at += int64(pick(r, 100, 1000, 5000, 20000))
		}
		l := pick(r, 0, 1, 100, 500, 1200, 1460)
		if avoidSet["c17-packet-larger-than-burst"] && l > 1200 {
			l = 1200
		}
		ops = append(ops, c17Op{K: "w", W: r.Intn(nw), AtUs: at, HS: r.Int63(), Len: l, WErr: chance(r, errP)})
		if cfg.Mode != "noop" && chance(r, 60) {
			ops = append(ops, c17Op{K: "rate", AtUs: at + int64(r.Intn(3000)), Rate: pick(r, 100_000, 300_000, 1_000_000, 4_000_000, cfg.Rate)})
		}
	}
	sort.SliceStable(ops, func(i, j int) bool { return ops[i].AtUs < ops[j].AtUs })
	p.Cfg = mustJSON(cfg)
	setOps(p, ops)
	return p
}

type c17Pkt struct {
	stream, writer int
	hdr            rtp.Header
	payload        []byte
	bits           int
	enter, ret     int
	accepted       bool
	delivered      int // count
	delStep        int
	delAt          time.Duration
	intact         bool
	werr           bool
}

type c17Rate struct {
	at   time.Duration
	rate int
}

func (c17) Run(e *Env) {
	cfg := cfgOf[c17Cfg](e.Plan)
	ops := opsOf[c17Op](e.Plan)
	e.SetSample(fmt.Sprintf("mode=%s rate=%d interval=%dms streams=%d writers=%v ops=%d", cfg.Mode, cfg.Rate, cfg.IntervalMs, cfg.Streams, cfg.Writers, len(ops)))
	interval := time.Duration(cfg.IntervalMs) * time.Millisecond
	var pkts []*c17Pkt
	var order [][]*c17Pkt = make([][]*c17Pkt, cfg.Streams) // delivery order per stream
	var globalOrder []*c17Pkt
	next := make([]interceptor.RTPWriter, cfg.Streams)
	for s := 0; s < cfg.Streams; s++ {
		s := s
		next[s] = interceptor.RTPWriterFunc(func(h *rtp.Header, pl []byte, a interceptor.Attributes) (int, error) {
			p, _ := a.Get("pkt").(*c17Pkt)
			if p == nil {
				e.Violatef("oracle", "c17:attributes-lost", "delivered packet lost its attributes")
				return 0, nil
			}
			// a real next writer takes its time: the pacer must not recycle what it handed over
			if cfg.StallUs > 0 {
				e.Fault("stall_writer")
				simrt.Sleep(us(cfg.StallUs))
			} else {
				simrt.Yield("downstream")
			}
			hc := h.Clone()
			same := hdrDiff(&p.hdr, &hc, 0) == "" && bytes.Equal(p.payload, pl) && p.hdr.Padding == hc.Padding
			c17Deliver(e, p, s, same, &order[s], &globalOrder)
			if p.werr {
				e.Fault("writer_err")
				return 0, errInjected
			}
			return hc.MarshalSize() + len(pl), nil
		})
	}
	t0 := e.S.Now()
	var write func(s int, h *rtp.Header, pl []byte, a interceptor.Attributes) (int, error)
	var setRate func(r int)
	var closeFn func()
	var lateAdd func()
	switch cfg.Mode {
	case "pacing":
		f := pacing.NewInterceptor(pacing.InitialRate(cfg.Rate), pacing.Interval(interval), pacing.WithLoggerFactory(nopLoggerFactory{}))
		ic, err := f.NewInterceptor("c17")
		if err != nil {
			e.Violatef("oracle", "c17:construct", "%v", err)
			return
		}
		ws := make([]interceptor.RTPWriter, cfg.Streams)
		for s := range ws {
			ws[s] = ic.BindLocalStream(streamInfo(uint32(600+s), 96, 90000), next[s])
		}
		write = func(s int, h *rtp.Header, pl []byte, a interceptor.Attributes) (int, error) {
			return ws[s].Write(h, pl, a)
		}
		setRate = func(r int) { f.SetRate("c17", r) }
		closeFn = func() { ic.Close() }
	case "leaky":
		pc := gcc.NewLeakyBucketPacer(cfg.Rate)
		for s := 0; s < cfg.Streams; s++ {
			if cfg.LateAdd && s == cfg.Streams-1 {
				var once sync.Once
				lateAdd = func() {
					once.Do(func() {
						e.Fault("stream_added_while_pacing")
						pc.AddStream(uint32(600+s), next[s])
					})
				}
				continue
			}
			pc.AddStream(uint32(600+s), next[s])
		}
		write = func(s int, h *rtp.Header, pl []byte, a interceptor.Attributes) (int, error) {
			return pc.Write(h, pl, a)
		}
		setRate = pc.SetTargetBitrate
		closeFn = func() { pc.Close() }
	default:
		pc := gcc.NewNoOpPacer()
		for s := 0; s < cfg.Streams; s++ {
			pc.AddStream(uint32(600+s), next[s])
		}
		write = func(s int, h *rtp.Header, pl []byte, a interceptor.Attributes) (int, error) {
			return pc.Write(h, pl, a)
		}
		setRate = pc.SetTargetBitrate
		closeFn = func() { pc.Close() }
	}
	rates := []c17Rate{{t0, cfg.Rate}}
	var gs []*simrt.G
	for w, s := range cfg.Writers {
		var wops []c17Op
		for _, o := range ops {
			if o.K == "w" && o.W == w {
				wops = append(wops, o)
			}
		}
		gs = append(gs, e.Go(fmt.Sprintf("writer%d", w), func() {
			h := &rtp.Header{}
			var buf []byte
			for i, o := range wops {
				simrt.SleepUntil(us(o.AtUs))
				*h = hdrFromSeed(o.HS, uint32(600+s), 96, uint16(i), uint32(i)*3000, 0).Clone()
				buf = append(buf[:0], payloadFromSeed(o.HS, o.Len)...)
				p := &c17Pkt{stream: s, writer: w, hdr: h.Clone(), payload: append([]byte{}, buf...), werr: o.WErr}
				if i == 0 && lateAdd != nil && s == cfg.Streams-1 {
					lateAdd()
				}
				p.bits = 8 * (p.hdr.MarshalSize() + len(buf))
				c17Enter(e, &pkts, p)
				_, err := write(s, h, buf, interceptor.Attributes{"pkt": p})
				c17Ret(e, p, err == nil)
				// the caller reuses everything immediately
				for j := range buf {
					buf[j] ^= 0x3C
				}
				for j := range h.CSRC {
					h.CSRC[j] = 7
				}
				for _, id := range h.GetExtensionIDs() {
					b := h.GetExtension(id)
					for j := range b {
						b[j] ^= 0xFF
					}
				}
				h.Timestamp++
			}
		}))
	}
	gs = append(gs, e.Go("rate", func() {
		for _, o := range ops {
			if o.K == "rate" {
				simrt.SleepUntil(us(o.AtUs))
				c17Rates(e, &rates, o.Rate, true)
				setRate(o.Rate)
				c17Rates(e, &rates, o.Rate, false)
				e.Fault("set_rate")
			}
		}
	}))
	e.Wait(gs...)
	// bounded liveness: everything accepted is delivered within queued-bits / rate plus a few intervals
	minRate := cfg.Rate
	for _, rc := range rates {
		if rc.rate < minRate {
			minRate = rc.rate
		}
	}
	queued := 0
	for _, p := range pkts {
		if p.accepted && p.delivered == 0 {
			queued += p.bits
		}
	}
	// (a token bucket that is only looked at once per interval loses the tokens that would exceed the burst
	// while the head packet waits for the next tick: half as much again as the nominal time is allowed)
	drain := time.Duration(1.5*float64(queued)/float64(minRate)*float64(time.Second)) + 10*interval + 50*time.Millisecond
	if cfg.Mode == "leaky" {
		drain = drain*2 + time.Second
	}
	simrt.Sleep(drain)
	closeFn()
	// ---- oracle
	for _, p := range pkts {
		e.Check()
		if !p.accepted {
			if p.delivered > 0 && cfg.Mode != "noop" {
				e.Violatef("oracle", "c17:rejected-but-delivered", "Write returned an error but the packet was delivered")
			}
			continue
		}
		switch {
		case p.delivered == 0:
			sig := "c17:accepted-never-delivered"
			if cfg.Mode == "pacing" {
				for _, q := range pkts {
					if q.accepted && q.delivered == 0 && q.bits >= c17Burst(minRate, cfg.IntervalMs) {
						sig = "c17:packet-not-smaller-than-burst-blocks-queue"
					}
				}
			}
			e.Violatef("oracle", sig, "packet of stream %d (%d bits) was accepted but never delivered although the pacer stayed open for %v after the last write (queued %d bits, lowest rate %d bit/s)", p.stream, p.bits, drain, queued, minRate)
			return
		case p.delivered > 1:
			e.Violatef("oracle", "c17:delivered-twice", "accepted packet delivered %d times", p.delivered)
		}
		if !p.intact {
			e.Violatef("oracle", "c17:altered", "delivered header/payload differ from what the packet had when it was accepted (stream %d)", p.stream)
		}
	}
	// order: a linearisation of the per-stream FIFO (single consumer, so real-time order suffices)
	for s, ord := range order {
		pos := map[*c17Pkt]int{}
		for i, p := range ord {
			pos[p] = i
		}
		for _, a := range ord {
			for _, b := range ord {
				if a != b && a.ret < b.enter && pos[a] > pos[b] {
					e.Violatef("oracle", "c17:reordered", "stream %d: a packet accepted (Write returned at step %d) before another was even written (step %d) was delivered after it", s, a.ret, b.enter)
					goto nextStream
				}
			}
		}
	nextStream:
	}
	if cfg.Mode == "pacing" {
		// rate envelope
		sort.SliceStable(globalOrder, func(i, j int) bool { return globalOrder[i].delStep < globalOrder[j].delStep })
		maxBurst := 0
		for _, rc := range rates {
			if b := c17Burst(rc.rate, cfg.IntervalMs); b > maxBurst {
				maxBurst = b
			}
		}
		cum := 0
		for _, p := range globalOrder {
			cum += p.bits
			allowed := float64(maxBurst) + c17Integral(rates, t0, p.delAt)
			if float64(cum) > allowed+1 {
				e.Violatef("oracle", "c17:rate-exceeded", "by t=%v %d bits were released; burst allowance %d + rate x elapsed = %.0f bits", p.delAt-t0, cum, maxBurst, allowed)
				break
			}
		}
		if cum > maxBurst {
			e.Probe("beyond_first_burst")
		}
	}
}

// c17Burst is the documented bucket size: what is needed to reach the rate at the pacing interval, at least 1500 bytes.
func c17Burst(rate, intervalMs int) int {
	b := rate / (1000 / intervalMs)
	if b < 8*1500 {
		b = 8 * 1500
	}
	return b
}

func c17Integral(rates []c17Rate, t0, t time.Duration) float64 {
	sum := 0.0
	for i, rc := range rates {
		from := rc.at
		to := t
		if i+1 < len(rates) && rates[i+1].at < t {
			to = rates[i+1].at
		}
		if to > from {
			sum += float64(rc.rate) * (to - from).Seconds()
		}
	}
	return sum
}

//go:norace
func c17Enter(e *Env, pkts *[]*c17Pkt, p *c17Pkt) {
	p.enter, p.ret = e.S.Step(), 1<<60
	*pkts = append(*pkts, p)
}

//go:norace
func c17Ret(e *Env, p *c17Pkt, ok bool) { p.ret, p.accepted = e.S.Step(), ok }

//go:norace
func c17Deliver(e *Env, p *c17Pkt, s int, same bool, ord *[]*c17Pkt, global *[]*c17Pkt) {
	p.delivered++
	if p.delivered == 1 {
		p.delStep, p.delAt, p.intact = e.S.Step(), e.S.Now(), same
		if p.stream != s {
			p.intact = false
		}
		*ord = append(*ord, p)
		*global = append(*global, p)
		e.S.Logf("deliver stream=%d bits=%d", s, p.bits)
	}
}

// c17Rates records a rate change: an increase counts from the moment SetRate is entered, a decrease from its return.
//
//go:norace
func c17Rates(e *Env, rates *[]c17Rate, r int, enter bool) {
	cur := (*rates)[len(*rates)-1].rate
	if (enter && r > cur) || (!enter && r < cur) {
		*rates = append(*rates, c17Rate{e.S.Now(), r})
		e.S.Logf("rate change -> %d", r)
	}
}
