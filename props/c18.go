package props

import (
	"bytes"
	"errors"
	"fmt"
	"sort"

	"github.com/pion/interceptor"
	"github.com/pion/interceptor/pkg/jitterbuffer"
	"github.com/pion/rtp"

	"verif/simrt"
)

// C18: jitter buffer emits pushed packets in sequence order, at most once.

type c18Cfg struct {
	MinStart    uint16 `json:"min_start"`
	Interceptor bool   `json:"interceptor"`         // drive the ReceiverInterceptor read path instead of the API
	Consumers   int    `json:"consumers,omitempty"` // > 0: the buffer is filled in order and this many goroutines pop from it at the same time
	Start       uint16 `json:"start,omitempty"`
	Fill        int    `json:"fill,omitempty"`
	PopsEach    int    `json:"pops_each,omitempty"`
}

type c18Op struct {
	K    string `json:"k"` // push pop popseq popts peek peekseq sethead clear
	Seq  uint16 `json:"seq,omitempty"`
	TS   uint32 `json:"ts,omitempty"`
	B    bool   `json:"b,omitempty"`
	AtUs int64  `json:"at_us"`
	Len  int    `json:"len,omitempty"`
}

type c18 struct{}

func init() { register(c18{}) }

func (c18) ID() string { return "C18" }

func (c18) Gen(seed int64, tier string, avoid []string) *Plan {
	p, r := newPlan("C18", seed, tier, avoid)
	cfg := c18Cfg{MinStart: uint16(pick(r, 1, 1, 2, 3, 5, 10, 50)), Interceptor: chance(r, 200)}
	avoidSet := map[string]bool{}
	for _, a := range avoid {
		avoidSet[a] = true
	}
	n := pick(r, 10, 30, 80, 200)
	if tier == "thorough" {
		n = pick(r, 30, 200, 600)
	}
	var seq uint16
	switch r.Intn(3) {
	case 0:
		seq = uint16(65535 - r.Intn(n+1))
	case 1:
		seq = uint16(r.Intn(65536))
	default:
		seq = uint16(r.Intn(100))
	}
	dropP := pick(r, 0, 0, 30, 150)
	dupP := pick(r, 0, 0, 30, 150)
	reoP := pick(r, 0, 100, 400)
	if avoidSet["c18-duplicate-push"] {
		dupP = 0
	}
	clearP := pick(r, 0, 0, 10, 40)
	if avoidSet["c18-clear"] {
		clearP = 0
	}
	type arr struct {
		at  int64
		seq uint16
		ts  uint32
	}
	var arrs []arr
	at := int64(0)
	for i := 0; i < n; i++ {
		at += 1000
		s := seq
		seq++
		ts := uint32(s/3) * 3000 // frames of 3 packets share a timestamp
		if chance(r, dropP) {
			continue
		}
		t := at
		if chance(r, reoP) {
			t += int64(r.Intn(8)) * 1000
		}
		arrs = append(arrs, arr{t, s, ts})
		if chance(r, dupP) {
			// (a repeated number need not repeat the timestamp: a sender that re-used the number, or one cycle later)
			arrs = append(arrs, arr{t + int64(r.Intn(6))*1000, s, ts + uint32(pick(r, 0, 0, 3000, 90000))})
		}
	}
	sort.SliceStable(arrs, func(i, j int) bool { return arrs[i].at < arrs[j].at })
	var ops []c18Op
	pushed := 0
	var recent []arr
	for _, a := range arrs {
		ops = append(ops, c18Op{K: "push", Seq: a.seq, TS: a.ts, AtUs: a.at, Len: pick(r, 0, 1, 10, 100)})
		pushed++
		recent = append(recent, a)
		if cfg.Interceptor {
			continue
		}
		// consumer operations interleaved with arrivals
		for k := r.Intn(3); k > 0; k-- {
			x := recent[r.Intn(len(recent))]
			switch c := r.Intn(100); {
			case c < 45:
				ops = append(ops, c18Op{K: "pop", AtUs: a.at})
			case c < 55:
				ops = append(ops, c18Op{K: "popseq", Seq: x.seq + uint16(r.Intn(3)) - 1, AtUs: a.at})
			case c < 62:
				ops = append(ops, c18Op{K: "popts", TS: x.ts, AtUs: a.at})
			case c < 75:
				ops = append(ops, c18Op{K: "peek", B: r.Intn(2) == 0, AtUs: a.at})
			case c < 85:
				ops = append(ops, c18Op{K: "peekseq", Seq: x.seq + uint16(r.Intn(3)) - 1, AtUs: a.at})
			case c < 90:
				ops = append(ops, c18Op{K: "sethead", Seq: x.seq, AtUs: a.at})
			default:
				if chance(r, clearP*10) {
					ops = append(ops, c18Op{K: "clear", B: r.Intn(2) == 0, AtUs: a.at})
				} else {
					ops = append(ops, c18Op{K: "pop", AtUs: a.at})
				}
			}
		}
	}
	if !cfg.Interceptor {
		for i := 0; i < pushed/2+3; i++ {
			ops = append(ops, c18Op{K: "pop", AtUs: at + int64(i)*1000})
		}
	}
	if !cfg.Interceptor && chance(r, 120) {
		// concurrent consumers (the buffer has its own mutex and is documented as safe for that)
		cfg.Consumers = pick(r, 2, 2, 3)
		cfg.PopsEach = pick(r, 1, 2, 5)
		cfg.Fill = cfg.Consumers*cfg.PopsEach + int(cfg.MinStart) + r.Intn(5)
		cfg.Start = uint16(pick(r, 0, 65530, r.Intn(65536)))
	}
	p.Cfg = mustJSON(cfg)
	setOps(p, ops)
	return p
}

type c18Model struct {
	min          int
	buf          map[uint16][]*rtp.Packet
	count        int
	started      int // 0 no, 1 yes, 2 unknown (after Clear(true))
	heads        map[uint16]bool
	anyHead      bool
	ready        bool // playback has started at least once
	headExplicit bool // the head was last set by SetPlayoutHead
	returned     map[*rtp.Packet]bool
	firstSeq     uint16
	haveFirst    bool
}

func (m *c18Model) has(seq uint16) bool { return len(m.buf[seq]) > 0 }

func (m *c18Model) take(p *rtp.Packet) bool {
	l := m.buf[p.SequenceNumber]
	for i, q := range l {
		if q == p {
			m.buf[p.SequenceNumber] = append(l[:i:i], l[i+1:]...)
			m.count--
			return true
		}
	}
	return false
}

func (c18) Run(e *Env) {
	cfg := cfgOf[c18Cfg](e.Plan)
	ops := opsOf[c18Op](e.Plan)
	e.SetSample(fmt.Sprintf("min_start=%d interceptor=%v ops=%d", cfg.MinStart, cfg.Interceptor, len(ops)))
	if cfg.Interceptor {
		c18Interceptor(e, cfg, ops)
		return
	}
	if cfg.Consumers > 0 {
		c18Concurrent(e, cfg)
		return
	}
	jb := jitterbuffer.New(jitterbuffer.WithMinimumPacketCount(cfg.MinStart))
	m := &c18Model{min: int(cfg.MinStart), buf: map[uint16][]*rtp.Packet{}, heads: map[uint16]bool{}, returned: map[*rtp.Packet]bool{}}
	viol := func(sig, f string, a ...any) { e.Violatef("oracle", "c18:"+sig, f, a...) }
	// checkReturned validates any packet handed out by pop/peek/find
	checkReturned := func(op string, p *rtp.Packet, remove bool) bool {
		if p == nil {
			viol(op+"-nil", "%s returned nil packet with nil error", op)
			return false
		}
		if m.returned[p] {
			viol("returned-twice", "%s returned a packet (seq %d) that had already been popped", op, p.SequenceNumber)
			return false
		}
		found := false
		for _, q := range m.buf[p.SequenceNumber] {
			if q == p {
				found = true
			}
		}
		if !found {
			viol("not-buffered", "%s returned a packet (seq %d) that is not buffered (pushed before a Clear, or never pushed)", op, p.SequenceNumber)
			return false
		}
		if remove {
			m.take(p)
			m.returned[p] = true
		}
		return true
	}
	startedMust := func() (must, mustNot bool) {
		switch m.started {
		case 1:
			return true, false
		case 0:
			return false, true
		}
		return false, false
	}
	for i, o := range ops {
		simrt.SleepUntil(us(o.AtUs))
		e.Check()
		if m.started == 1 {
			m.ready = true
		}
		switch o.K {
		case "push":
			pkt := &rtp.Packet{Header: rtp.Header{Version: 2, SequenceNumber: o.Seq, Timestamp: o.TS, SSRC: 77}, Payload: make([]byte, o.Len)}
			if m.has(o.Seq) {
				e.Fault("dup")
			}
			jb.Push(pkt)
			m.buf[o.Seq] = append(m.buf[o.Seq], pkt)
			m.count++
			if !m.haveFirst {
				m.haveFirst, m.firstSeq = true, o.Seq
				if m.started != 1 && !m.anyHead {
					// the first packet into an empty buffer that is not playing.  The statement does not say
					// whether it re-initialises the playout head when the head was set explicitly before, or
					// when playback had already started once: the library does the former only if playback has
					// never started; both outcomes are acceptable here.
					if m.ready || m.headExplicit {
						m.heads[o.Seq] = true
					} else {
						m.heads = map[uint16]bool{o.Seq: true}
					}
				}
			}
			if m.started == 0 && m.count >= m.min {
				m.started = 1
			}
			if m.started == 2 {
				lo, hi := m.min, 50
				if lo > hi {
					lo, hi = hi, lo
				}
				if m.count >= hi {
					m.started = 1
				}
				_ = lo
			}
		case "pop":
			p, err := jb.Pop()
			must, mustNot := startedMust()
			if err == nil {
				if mustNot {
					viol("pop-before-start", "op %d: Pop succeeded before playback started (%d buffered, minimum %d)", i, m.count, m.min)
					checkReturned("Pop", p, true)
					break
				}
				m.started = 1
				if !checkReturned("Pop", p, true) {
					break
				}
				if !m.anyHead && !m.heads[p.SequenceNumber] {
					viol("pop-not-at-head", "op %d: Pop returned seq %d, expected playout head %v", i, p.SequenceNumber, headList(m.heads))
				}
				e.Probe("pop_ok")
				m.anyHead = false
				m.headExplicit = false
				m.heads = map[uint16]bool{p.SequenceNumber + 1: true}
			} else {
				if errors.Is(err, jitterbuffer.ErrPopWhileBuffering) {
					if must {
						viol("pop-refused-after-start", "op %d: Pop refused with ErrPopWhileBuffering although playback had started", i)
					}
					break
				}
				// not buffered at head: legitimate only if no acceptable head is buffered
				if must && !m.anyHead {
					all := len(m.heads) > 0
					for h := range m.heads {
						if !m.has(h) {
							all = false
						}
					}
					if all {
						viol("pop-missed-buffered-head", "op %d: Pop failed (%v) although seq %v is buffered at the playout head", i, err, headList(m.heads))
					}
				}
				e.Probe("pop_underflow")
			}
		case "popseq":
			p, err := jb.PopAtSequence(o.Seq)
			must, mustNot := startedMust()
			if err == nil {
				if mustNot {
					viol("pop-before-start", "op %d: PopAtSequence succeeded before playback started", i)
				}
				m.started = 1
				if checkReturned("PopAtSequence", p, true) && p.SequenceNumber != o.Seq {
					viol("popseq-wrong", "op %d: PopAtSequence(%d) returned seq %d", i, o.Seq, p.SequenceNumber)
				}
				// the statement does not say whether the head moves: accept both
				nh := map[uint16]bool{}
				for h := range m.heads {
					nh[h], nh[h+1] = true, true
				}
				m.heads = nh
			} else if must && !errors.Is(err, jitterbuffer.ErrPopWhileBuffering) && m.has(o.Seq) {
				viol("popseq-missed", "op %d: PopAtSequence(%d) failed (%v) although that number is buffered", i, o.Seq, err)
			} else if must && errors.Is(err, jitterbuffer.ErrPopWhileBuffering) {
				viol("pop-refused-after-start", "op %d: PopAtSequence refused although playback had started", i)
			} else if !m.has(o.Seq) {
				e.Probe("pop_absent_number")
			}
		case "popts":
			p, err := jb.PopAtTimestamp(o.TS)
			must, mustNot := startedMust()
			any := false
			for _, l := range m.buf {
				for _, q := range l {
					if q.Timestamp == o.TS {
						any = true
					}
				}
			}
			if err == nil {
				if mustNot {
					viol("pop-before-start", "op %d: PopAtTimestamp succeeded before playback started", i)
				}
				m.started = 1
				if checkReturned("PopAtTimestamp", p, true) && p.Timestamp != o.TS {
					viol("popts-wrong", "op %d: PopAtTimestamp(%d) returned ts %d", i, o.TS, p.Timestamp)
				}
			} else if must && any && !errors.Is(err, jitterbuffer.ErrPopWhileBuffering) {
				viol("popts-missed", "op %d: PopAtTimestamp(%d) failed (%v) although a packet with that timestamp is buffered", i, o.TS, err)
			}
		case "peek":
			p, err := jb.Peek(o.B)
			if err == nil {
				checkReturned("Peek", p, false)
			}
		case "peekseq":
			p, err := jb.PeekAtSequence(o.Seq)
			if err == nil {
				if checkReturned("PeekAtSequence", p, false) && p.SequenceNumber != o.Seq {
					viol("peekseq-wrong", "op %d: PeekAtSequence(%d) returned seq %d", i, o.Seq, p.SequenceNumber)
				}
			} else if m.has(o.Seq) {
				viol("peekseq-missed", "op %d: PeekAtSequence(%d) failed (%v) although that number is buffered", i, o.Seq, err)
			}
		case "sethead":
			jb.SetPlayoutHead(o.Seq)
			m.heads = map[uint16]bool{o.Seq: true}
			m.anyHead = false
			m.headExplicit = true
			if got := jb.PlayoutHead(); got != o.Seq {
				viol("sethead", "op %d: PlayoutHead() = %d after SetPlayoutHead(%d)", i, got, o.Seq)
			}
		case "clear":
			jb.Clear(o.B)
			e.Fault("clear")
			m.buf = map[uint16][]*rtp.Packet{}
			m.count = 0
			// the statement does not say where the playout head is after a Clear:
			// the next successful Pop may be at any buffered number, then consecutive
			m.anyHead = true
			if m.started != 1 {
				m.haveFirst = false
			}
			if o.B {
				m.started = 2
				if m.min == 50 {
					m.started = 0
				}
				m.haveFirst = false
			}
		}
	}
}

func headList(h map[uint16]bool) []int {
	var out []int
	for k := range h {
		out = append(out, int(k))
	}
	sort.Ints(out)
	return out
}

// c18Interceptor drives the ReceiverInterceptor: every Read pushes the packet
// that arrived and, once playback has started, hands out the packet at the
// playout head.
func c18Interceptor(e *Env, cfg c18Cfg, ops []c18Op) {
	f, _ := jitterbuffer.NewInterceptor(jitterbuffer.WithLoggerFactory(nopLoggerFactory{}))
	ic, err := f.NewInterceptor("")
	if err != nil {
		e.Violatef("oracle", "c18:construct", "%v", err)
		return
	}
	idx := 0
	orig := map[uint16][][]byte{}
	var cur []byte
	rd := ic.BindRemoteStream(streamInfo(77, 96, 90000), interceptor.RTPReaderFunc(func(b []byte, a interceptor.Attributes) (int, interceptor.Attributes, error) {
		o := ops[idx]
		idx++
		simrt.SleepUntil(us(o.AtUs))
		pkt := rtpBytes(77, 96, o.Seq, o.TS, o.Len)
		cur = pkt
		orig[o.Seq] = append(orig[o.Seq], pkt)
		return copy(b, pkt), a, nil
	}))
	buf := make([]byte, 1500)
	var next uint16
	started := false
	n := 0
	for idx < len(ops) {
		if ops[idx].K != "push" {
			idx++
			continue
		}
		for i := range buf {
			buf[i] = 0xEE // stale data beyond n, as a real read loop has
		}
		k, _, err := rd.Read(buf, interceptor.Attributes{})
		n++
		e.Check()
		if err != nil {
			continue
		}
		if k > len(buf) || k < 0 {
			e.Violatef("oracle", "c18:interceptor-n", "Read returned n=%d for a %d-byte buffer", k, len(buf))
			continue
		}
		var h rtp.Header
		if _, uerr := h.Unmarshal(buf[:k]); uerr != nil {
			e.Violatef("oracle", "c18:interceptor-bytes", "emitted packet does not parse: %v", uerr)
			continue
		}
		if started && h.SequenceNumber != next {
			e.Violatef("oracle", "c18:interceptor-order", "emitted seq %d, expected %d", h.SequenceNumber, next)
		}
		started = true
		next = h.SequenceNumber + 1
		match := false
		for _, ob := range orig[h.SequenceNumber] {
			if bytes.Equal(ob, buf[:k]) {
				match = true
			}
		}
		if !match {
			e.Violatef("oracle", "c18:interceptor-bytes", "emitted packet seq %d: %d bytes do not equal the packet received with that number (%d bytes; last arrival %d bytes)", h.SequenceNumber, k, len(first(orig[h.SequenceNumber])), len(cur))
		}
		e.Probe("interceptor_emit")
	}
	ic.Close()
}

func first(b [][]byte) []byte {
	if len(b) == 0 {
		return nil
	}
	return b[0]
}

// c18Concurrent: the buffer holds Fill consecutive packets and is emitting; Consumers goroutines pop PopsEach
// packets each at the same time.  Pop is atomic, so whatever the interleaving every pop succeeds and together
// they return exactly the oldest Consumers x PopsEach packets, each once, each consumer's in increasing order.
func c18Concurrent(e *Env, cfg c18Cfg) {
	jb := jitterbuffer.New(jitterbuffer.WithMinimumPacketCount(cfg.MinStart))
	pushed := map[uint16]*rtp.Packet{}
	for i := 0; i < cfg.Fill; i++ {
		seq := cfg.Start + uint16(i)
		p := &rtp.Packet{Header: rtp.Header{Version: 2, SequenceNumber: seq, Timestamp: uint32(i) * 3000}, Payload: []byte{byte(i)}}
		pushed[seq] = p
		jb.Push(p)
	}
	type res struct {
		p   *rtp.Packet
		err error
	}
	got := make([][]res, cfg.Consumers)
	var gs []*simrt.G
	for c := 0; c < cfg.Consumers; c++ {
		gs = append(gs, e.Go(fmt.Sprintf("consumer%d", c), func() {
			for k := 0; k < cfg.PopsEach; k++ {
				p, err := jb.Pop()
				got[c] = append(got[c], res{p, err})
			}
		}))
	}
	e.Fault("concurrent_consumers")
	e.Wait(gs...)
	total := cfg.Consumers * cfg.PopsEach
	seen := map[uint16]int{}
	for c, rs := range got {
		var prev int = -1
		for _, r := range rs {
			e.Check()
			if r.err != nil || r.p == nil {
				e.Violatef("oracle", "c18:concurrent-pop-failed", "consumer %d: Pop failed (%v) although %d consecutive packets from the playout head were buffered for %d pops", c, r.err, cfg.Fill, total)
				continue
			}
			if pushed[r.p.SequenceNumber] != r.p {
				e.Violatef("oracle", "c18:not-buffered", "consumer %d got a packet (seq %d) that was never pushed", c, r.p.SequenceNumber)
				continue
			}
			off := int(r.p.SequenceNumber - cfg.Start)
			if off <= prev {
				e.Violatef("oracle", "c18:concurrent-pop-order", "consumer %d received offset %d after offset %d", c, off, prev)
			}
			prev = off
			seen[r.p.SequenceNumber]++
		}
	}
	for i := 0; i < total; i++ {
		if n := seen[cfg.Start+uint16(i)]; n != 1 {
			e.Violatef("oracle", "c18:concurrent-pop-set", "%d concurrent pops on a buffer holding %d consecutive packets: packet at offset %d was returned %d times (the pops must return the %d oldest packets, each once)", total, cfg.Fill, i, n, total)
			break
		}
	}
}
