package props

import (
	"fmt"
	"math"
	"math/rand"
	"sort"
	"time"

	"github.com/pion/interceptor"
	"github.com/pion/interceptor/pkg/stats"
	"github.com/pion/rtcp"
	"github.com/pion/rtp"

	"verif/simrt"
)

// C19: stream statistics equal a recount of the observed traffic.

type c19Cfg struct {
	Local      []RigStream `json:"local"`
	Remote     []RigStream `json:"remote"`
	Concurrent bool        `json:"concurrent"` // RTP, RTCP and queries on separate goroutines (additive counters compared at the end)
}

type c19Op struct {
	K    string `json:"k"` // w r ci co get jump
	S    int    `json:"s,omitempty"`
	AtUs int64  `json:"at_us"`
	HS   int64  `json:"hs,omitempty"`
	Len  int    `json:"len,omitempty"`
	Seq  uint16 `json:"seq,omitempty"`
	Off  int64  `json:"off_us,omitempty"`
}

type c19 struct{}

func init() { register(c19{}) }

func (c19) ID() string { return "C19" }

func (c19) Gen(seed int64, tier string, avoid []string) *Plan {
	p, r := newPlan("C19", seed, tier, avoid)
	var cfg c19Cfg
	for s := 0; s < pick(r, 1, 1, 2); s++ {
		cfg.Local = append(cfg.Local, RigStream{SSRC: uint32(100 + s), PT: 96, Clock: pick(r, uint32(90000), 48000, 8000), Seq0: uint16(pick(r, 0, 65530, r.Intn(65536)))})
	}
	for s := 0; s < pick(r, 1, 1, 2); s++ {
		cfg.Remote = append(cfg.Remote, RigStream{SSRC: uint32(200 + s), PT: 97, Clock: 90000, Seq0: uint16(pick(r, 0, 65500, r.Intn(65536)))})
	}
	n := pick(r, 10, 40, 100)
	if tier == "thorough" {
		n = pick(r, 40, 200, 600)
	}
	cfg.Concurrent = chance(r, 350)
	var ops []c19Op
	at := int64(2000)
	rseq := make([]uint16, len(cfg.Remote))
	for i := range rseq {
		rseq[i] = cfg.Remote[i].Seq0
	}
	for i := 0; i < n; i++ {
		if !(cfg.Concurrent && chance(r, 600)) {
			at += int64(pick(r, 100, 1000, 5000, 20000)) // (concurrent mode: many operations at the same instant)
		}
		switch c := r.Intn(100); {
		case c < 30:
			ops = append(ops, c19Op{K: "w", S: r.Intn(len(cfg.Local)), AtUs: at, HS: r.Int63(), Len: pick(r, 0, 10, 500, 1200)})
		case c < 60:
			s := r.Intn(len(cfg.Remote))
			seq := rseq[s]
			rseq[s]++
			switch r.Intn(10) {
			case 0:
				rseq[s] += uint16(1 + r.Intn(5)) // loss
			case 1:
				seq -= uint16(1 + r.Intn(4)) // duplicate / reordered copy
			}
			ops = append(ops, c19Op{K: "r", S: s, AtUs: at, HS: r.Int63(), Len: pick(r, 0, 10, 500), Seq: seq})
		case c < 78:
			// (the read is issued now, the transport delivers the packet Len microseconds later)
			ops = append(ops, c19Op{K: "ci", AtUs: at, HS: r.Int63(), Len: pick(r, 0, 0, 300, 20000)})
		case c < 90:
			ops = append(ops, c19Op{K: "co", AtUs: at, HS: r.Int63()})
		default:
			ops = append(ops, c19Op{K: "get", AtUs: at})
		}
	}
	if chance(r, 300) {
		ops = append(ops, c19Op{K: "jump", AtUs: r.Int63n(at + 1), Off: pick(r, int64(-1_000_000), 5000, 3_000_000)})
	}
	ops = append(ops, c19Op{K: "get", AtUs: at + 1000})
	sort.SliceStable(ops, func(i, j int) bool { return ops[i].AtUs < ops[j].AtUs })
	p.Cfg = mustJSON(cfg)
	setOps(p, ops)
	return p
}

// expected statistics of one stream (WebRTC-stats formulas)
type c19Exp struct {
	clock float64
	// outbound
	sent, bytesSent, hdrSent uint64
	firstSent                int64
	haveSent                 bool
	nackIn, pliIn, firIn     uint32
	lastSR                   []uint64 // NTP of our last sender reports about this stream
	riLost                   int64
	riFraction               float64
	riJitter                 float64
	riReceived               uint64
	riRTT, riTotalRTT        time.Duration
	riRTTn                   uint64
	// inbound
	recv, bytesRecv, hdrRecv uint64
	first, hi, last          int64
	haveRecv                 bool
	nackOut, pliOut, firOut  uint32
	lastRRTR                 []uint64
	roSent, roBytes          uint64
	roReports                uint64
	roRTT, roTotalRTT        time.Duration
	roRTTn                   uint64
	roTime                   time.Time
}

func ntpToTime(t uint64) time.Time {
	sec := int64(t >> 32)
	frac := float64(t&0xFFFFFFFF) / 4294967296.0
	return time.Unix(sec-2208988800, 0).Add(time.Duration(frac * 1e9))
}

func (c19) Run(e *Env) {
	cfg := cfgOf[c19Cfg](e.Plan)
	ops := opsOf[c19Op](e.Plan)
	e.SetSample(fmt.Sprintf("local=%d remote=%d ops=%d", len(cfg.Local), len(cfg.Remote), len(ops)))
	type jump struct{ at, off time.Duration }
	var jumps []jump
	for _, o := range ops {
		if o.K == "jump" {
			jumps = append(jumps, jump{us(o.AtUs), us(o.Off)})
			e.Fault("clock_jump")
		}
	}
	var lastTS time.Time
	clock := func() time.Time {
		el := e.S.Now()
		var off time.Duration
		for _, j := range jumps {
			if el >= j.at {
				off = j.off
			}
		}
		lastTS = time.Now().Add(off)
		return lastTS
	}
	var getter stats.Getter
	f, _ := stats.NewInterceptor(stats.SetNowFunc(clock), stats.WithLoggerFactory(nopLoggerFactory{}))
	f.OnNewPeerConnection(func(_ string, g stats.Getter) { getter = g })
	ic, err := f.NewInterceptor("c19")
	if err != nil || getter == nil {
		e.Violatef("oracle", "c19:construct", "%v", err)
		return
	}
	exp := map[uint32]*c19Exp{}
	rtcpW := ic.BindRTCPWriter(interceptor.RTCPWriterFunc(func(p []rtcp.Packet, _ interceptor.Attributes) (int, error) { return 0, nil }))
	var rtcpIn []byte
	var rtcpBlockUs int64
	var rtcpArrival time.Time
	rtcpR := ic.BindRTCPReader(interceptor.RTCPReaderFunc(func(b []byte, a interceptor.Attributes) (int, interceptor.Attributes, error) {
		if rtcpBlockUs > 0 {
			// a read loop: Read was issued earlier and blocks until the packet arrives
			simrt.Sleep(us(rtcpBlockUs))
		}
		keep := lastTS
		rtcpArrival = clock()
		lastTS = keep
		return copy(b, rtcpIn), a, nil
	}))
	lw := make([]interceptor.RTPWriter, len(cfg.Local))
	for s, st := range cfg.Local {
		exp[st.SSRC] = &c19Exp{clock: float64(st.Clock)}
		lw[s] = ic.BindLocalStream(st.info(), interceptor.RTPWriterFunc(func(h *rtp.Header, pl []byte, _ interceptor.Attributes) (int, error) { return len(pl), nil }))
	}
	var rtpIn []byte
	rr := make([]interceptor.RTPReader, len(cfg.Remote))
	for s, st := range cfg.Remote {
		exp[st.SSRC] = &c19Exp{clock: float64(st.Clock)}
		rr[s] = ic.BindRemoteStream(st.info(), interceptor.RTPReaderFunc(func(b []byte, a interceptor.Attributes) (int, interceptor.Attributes, error) {
			return copy(b, rtpIn), a, nil
		}))
	}
	// the recorders become active asynchronously: let their start goroutines run before the traffic
	simrt.Sleep(time.Millisecond)
	lseq := make([]uint16, len(cfg.Local))
	for i, st := range cfg.Local {
		lseq[i] = st.Seq0
	}
	buf := make([]byte, 1500)
	allSSRC := func(r *rand.Rand, local bool) uint32 {
		if chance(r, 200) {
			return 999 // foreign
		}
		if local {
			return cfg.Local[r.Intn(len(cfg.Local))].SSRC
		}
		return cfg.Remote[r.Intn(len(cfg.Remote))].SSRC
	}
	run := func(sel func(c19Op) bool, buf []byte) {
		for _, o := range ops {
			if !sel(o) {
				continue
			}
			simrt.SleepUntil(us(o.AtUs))
			switch o.K {
			case "w":
				st := cfg.Local[o.S%len(cfg.Local)]
				s := o.S % len(cfg.Local)
				h := hdrFromSeed(o.HS, st.SSRC, st.PT, lseq[s], uint32(lseq[s])*3000, 0)
				pl := payloadFromSeed(o.HS, o.Len)
				x := exp[st.SSRC]
				if !x.haveSent {
					x.haveSent, x.firstSent = true, int64(lseq[s])
				}
				lseq[s]++
				x.sent++
				x.hdrSent += uint64(h.MarshalSize())
				x.bytesSent += uint64(h.MarshalSize() + len(pl))
				lw[s].Write(h, pl, interceptor.Attributes{})
			case "r":
				s := o.S % len(cfg.Remote)
				st := cfg.Remote[s]
				h := hdrFromSeed(o.HS, st.SSRC, st.PT, o.Seq, uint32(o.Seq)*3000, 0)
				raw := rawRTP(h, payloadFromSeed(o.HS, o.Len))
				rtpIn = raw
				x := exp[st.SSRC]
				var u int64
				if !x.haveRecv {
					u = int64(o.Seq)
					x.haveRecv, x.first, x.hi = true, u, u
				} else {
					u = x.last + int64(int16(o.Seq-uint16(x.last)))
					if u < 0 {
						u += 65536
					}
				}
				x.last = u
				if u > x.hi {
					x.hi = u
				}
				x.recv++
				x.hdrRecv += uint64(h.MarshalSize())
				x.bytesRecv += uint64(len(raw))
				rr[s].Read(buf, interceptor.Attributes{})
			case "ci", "co":
				r := rand.New(rand.NewSource(o.HS))
				var pkts []rtcp.Packet
				incoming := o.K == "ci"
				for k := 1 + r.Intn(3); k > 0; k-- {
					switch r.Intn(7) {
					case 0:
						pkts = append(pkts, &rtcp.TransportLayerNack{SenderSSRC: 5, MediaSSRC: allSSRC(r, incoming), Nacks: []rtcp.NackPair{{PacketID: 1}}})
					case 1:
						pkts = append(pkts, &rtcp.PictureLossIndication{SenderSSRC: 5, MediaSSRC: allSSRC(r, incoming)})
					case 2:
						m := allSSRC(r, incoming)
						pkts = append(pkts, &rtcp.FullIntraRequest{SenderSSRC: 5, MediaSSRC: m, FIR: []rtcp.FIREntry{{SSRC: m, SequenceNumber: 1}}})
					case 3: // receiver report about one of the local streams (incoming) / remote streams (outgoing)
						pkts = append(pkts, &rtcp.ReceiverReport{SSRC: 77, Reports: []rtcp.ReceptionReport{c19Reception(r, allSSRC(r, incoming), exp, lastTS)}})
					case 4: // sender report
						if incoming {
							sr := &rtcp.SenderReport{SSRC: allSSRC(r, false), NTPTime: r.Uint64(), RTPTime: r.Uint32(), PacketCount: r.Uint32(), OctetCount: r.Uint32()}
							if chance(r, 500) {
								sr.Reports = []rtcp.ReceptionReport{c19Reception(r, allSSRC(r, true), exp, lastTS)}
							}
							pkts = append(pkts, sr)
						} else {
							pkts = append(pkts, &rtcp.SenderReport{SSRC: allSSRC(r, true), NTPTime: uint64(r.Uint32())<<32 | uint64(r.Uint32()), RTPTime: 1})
						}
					case 5: // extended report
						if incoming {
							x := &rtcp.ExtendedReport{SenderSSRC: allSSRC(r, false)}
							d := &rtcp.DLRRReportBlock{}
							for q := 1 + r.Intn(2); q > 0; q-- {
								ss := allSSRC(r, false)
								dl := rtcp.DLRRReport{SSRC: ss, DLRR: uint32(r.Intn(65536 * 2))}
								if xe := exp[ss]; xe != nil && len(xe.lastRRTR) > 0 && chance(r, 700) {
									dl.LastRR = uint32(xe.lastRRTR[r.Intn(len(xe.lastRRTR))] >> 16)
								} else {
									dl.LastRR = r.Uint32()
								}
								d.Reports = append(d.Reports, dl)
							}
							x.Reports = append(x.Reports, d)
							pkts = append(pkts, x)
						} else {
							pkts = append(pkts, &rtcp.ExtendedReport{SenderSSRC: 5, Reports: []rtcp.ReportBlock{&rtcp.ReceiverReferenceTimeReportBlock{NTPTimestamp: uint64(r.Uint32())<<32 | uint64(r.Uint32())}}})
						}
					default:
						pkts = append(pkts, &rtcp.ReceiverEstimatedMaximumBitrate{SenderSSRC: 5, Bitrate: 1e6, SSRCs: []uint32{allSSRC(r, incoming)}})
					}
				}
				if incoming {
					raw, err := rtcp.Marshal(pkts)
					if err != nil {
						continue
					}
					rtcpIn = raw
					rtcpBlockUs = 0
					if !cfg.Concurrent {
						rtcpBlockUs = int64(o.Len)
					}
					parsed, _ := rtcp.Unmarshal(raw)
					rtcpR.Read(buf, interceptor.Attributes{})
					// the packet is received when the transport hands it over, not when the read was issued
					c19ApplyIncoming(exp, parsed, rtcpArrival)
					e.Probe("rtcp_in")
				} else {
					rtcpW.Write(pkts, interceptor.Attributes{})
					c19ApplyOutgoing(exp, pkts)
					e.Probe("rtcp_out")
				}
			case "get":
				if cfg.Concurrent {
					continue
				}
				for ssrc, x := range exp {
					got := getter.Get(ssrc)
					if got == nil {
						e.Violatef("oracle", "c19:no-stats", "Get(%d) returned nil for a bound stream", ssrc)
						continue
					}
					c19Compare(e, ssrc, x, got)
				}
			}
		}
	}
	if !cfg.Concurrent {
		run(func(c19Op) bool { return true }, buf)
	} else {
		e.Probe("concurrent_mode")
		var gs []*simrt.G
		for _, k := range []string{"w", "r", "ci", "co"} {
			k := k
			gs = append(gs, e.Go("c19-"+k, func() { run(func(o c19Op) bool { return o.K == k }, make([]byte, 1500)) }))
		}
		gs = append(gs, e.Go("c19-query", func() {
			for _, o := range ops {
				if o.K == "get" {
					simrt.SleepUntil(us(o.AtUs))
					for ssrc := range exp {
						getter.Get(ssrc)
					}
				}
			}
		}))
		e.Wait(gs...)
		for ssrc, x := range exp {
			if got := getter.Get(ssrc); got != nil {
				c19CompareAdditive(e, ssrc, x, got)
			}
		}
	}
	ic.Close()
}

func c19Reception(r *rand.Rand, ssrc uint32, exp map[uint32]*c19Exp, now time.Time) rtcp.ReceptionReport {
	rep := rtcp.ReceptionReport{SSRC: ssrc, FractionLost: uint8(r.Intn(256)), TotalLost: uint32(r.Intn(500)), LastSequenceNumber: uint32(r.Intn(3))<<16 | uint32(r.Intn(65536)), Jitter: uint32(r.Intn(9000))}
	if chance(r, 700) {
		rep.Delay = uint32(1 + r.Intn(65536))
		if x := exp[ssrc]; x != nil && len(x.lastSR) > 0 && chance(r, 700) {
			rep.LastSenderReport = uint32(x.lastSR[r.Intn(len(x.lastSR))] >> 16)
		} else {
			rep.LastSenderReport = r.Uint32()
		}
	}
	return rep
}

func c19ApplyOutgoing(exp map[uint32]*c19Exp, pkts []rtcp.Packet) {
	for _, p := range pkts {
		switch q := p.(type) {
		case *rtcp.TransportLayerNack:
			if x := exp[q.MediaSSRC]; x != nil {
				x.nackOut++
			}
		case *rtcp.PictureLossIndication:
			if x := exp[q.MediaSSRC]; x != nil {
				x.pliOut++
			}
		case *rtcp.FullIntraRequest:
			if x := exp[q.MediaSSRC]; x != nil {
				x.firOut++
			}
		case *rtcp.SenderReport:
			if x := exp[q.SSRC]; x != nil {
				x.lastSR = append(x.lastSR, q.NTPTime)
				if len(x.lastSR) > 5 {
					x.lastSR = x.lastSR[len(x.lastSR)-5:]
				}
			}
		case *rtcp.ExtendedReport:
			for _, b := range q.Reports {
				if rt, ok := b.(*rtcp.ReceiverReferenceTimeReportBlock); ok {
					for _, x := range exp {
						x.lastRRTR = append(x.lastRRTR, rt.NTPTimestamp)
						if len(x.lastRRTR) > 5 {
							x.lastRRTR = x.lastRRTR[len(x.lastRRTR)-5:]
						}
					}
				}
			}
		}
	}
}

func c19ApplyIncoming(exp map[uint32]*c19Exp, pkts []rtcp.Packet, ts time.Time) {
	reception := func(reports []rtcp.ReceptionReport) {
		for _, rep := range reports {
			x := exp[rep.SSRC]
			if x == nil {
				continue
			}
			if x.haveSent {
				highest := int64(rep.LastSequenceNumber>>16)*65536 + int64(rep.LastSequenceNumber&0xFFFF)
				expected := highest - x.firstSent + 1
				rec := expected - int64(rep.TotalLost)
				if rec < 0 {
					rec = 0
				}
				x.riReceived = uint64(rec)
			}
			x.riLost = int64(rep.TotalLost)
			x.riJitter = float64(rep.Jitter) / x.clock
			x.riFraction = float64(rep.FractionLost) / 256.0
			if rep.Delay != 0 && rep.LastSenderReport != 0 {
				for i := len(x.lastSR) - 1; i >= 0; i-- {
					if uint32(x.lastSR[i]>>16) == rep.LastSenderReport {
						dlsr := time.Duration(float64(rep.Delay) / 65536.0 * float64(time.Second))
						x.riRTT = ts.Add(-dlsr).Sub(ntpToTime(x.lastSR[i]))
						x.riTotalRTT += x.riRTT
						x.riRTTn++
						break
					}
				}
			}
		}
	}
	for _, p := range pkts {
		switch q := p.(type) {
		case *rtcp.TransportLayerNack:
			if x := exp[q.MediaSSRC]; x != nil {
				x.nackIn++
			}
		case *rtcp.PictureLossIndication:
			if x := exp[q.MediaSSRC]; x != nil {
				x.pliIn++
			}
		case *rtcp.FullIntraRequest:
			if x := exp[q.MediaSSRC]; x != nil {
				x.firIn++
			}
		case *rtcp.ReceiverReport:
			reception(q.Reports)
		case *rtcp.SenderReport:
			if x := exp[q.SSRC]; x != nil {
				x.roSent, x.roBytes = uint64(q.PacketCount), uint64(q.OctetCount)
				x.roTime = ntpToTime(q.NTPTime)
				x.roReports++
			}
			reception(q.Reports)
		case *rtcp.ExtendedReport:
			for _, b := range q.Reports {
				if d, ok := b.(*rtcp.DLRRReportBlock); ok {
					for _, dr := range d.Reports {
						x := exp[dr.SSRC]
						if x == nil || dr.LastRR == 0 || dr.DLRR == 0 {
							continue
						}
						for i := len(x.lastRRTR) - 1; i >= 0; i-- {
							if uint32(x.lastRRTR[i]>>16) == dr.LastRR {
								dl := time.Duration(float64(dr.DLRR) / 65536.0 * float64(time.Second))
								x.roRTT = ts.Add(-dl).Sub(ntpToTime(x.lastRRTR[i]))
								x.roTotalRTT += x.roRTT
								x.roRTTn++
								break
							}
						}
					}
				}
			}
		}
	}
}

func c19Compare(e *Env, ssrc uint32, x *c19Exp, got *stats.Stats) {
	e.Check()
	bad := func(field string, g, w any) {
		e.Violatef("oracle", "c19:"+field, "SSRC %d: %s = %v, a recount of the traffic gives %v", ssrc, field, g, w)
	}
	o, i := got.OutboundRTPStreamStats, got.InboundRTPStreamStats
	if o.PacketsSent != x.sent {
		bad("PacketsSent", o.PacketsSent, x.sent)
	}
	if o.BytesSent != x.bytesSent {
		bad("BytesSent", o.BytesSent, x.bytesSent)
	}
	if o.HeaderBytesSent != x.hdrSent {
		bad("HeaderBytesSent", o.HeaderBytesSent, x.hdrSent)
	}
	if o.NACKCount != x.nackIn || o.PLICount != x.pliIn || o.FIRCount != x.firIn {
		bad("Outbound NACK/PLI/FIR", fmt.Sprint(o.NACKCount, o.PLICount, o.FIRCount), fmt.Sprint(x.nackIn, x.pliIn, x.firIn))
	}
	if i.PacketsReceived != x.recv {
		bad("PacketsReceived", i.PacketsReceived, x.recv)
	}
	if i.BytesReceived != x.bytesRecv || i.HeaderBytesReceived != x.hdrRecv {
		bad("BytesReceived/HeaderBytesReceived", fmt.Sprint(i.BytesReceived, i.HeaderBytesReceived), fmt.Sprint(x.bytesRecv, x.hdrRecv))
	}
	if x.haveRecv {
		want := (x.hi - x.first + 1) - int64(x.recv)
		if i.PacketsLost != want {
			bad("PacketsLost", i.PacketsLost, want)
		}
	}
	if i.NACKCount != x.nackOut || i.PLICount != x.pliOut || i.FIRCount != x.firOut {
		bad("Inbound NACK/PLI/FIR", fmt.Sprint(i.NACKCount, i.PLICount, i.FIRCount), fmt.Sprint(x.nackOut, x.pliOut, x.firOut))
	}
	ri, ro := got.RemoteInboundRTPStreamStats, got.RemoteOutboundRTPStreamStats
	if ri.PacketsLost != x.riLost || math.Abs(ri.FractionLost-x.riFraction) > 1e-9 || math.Abs(ri.Jitter-x.riJitter) > 1e-9 {
		bad("RemoteInbound loss/fraction/jitter", fmt.Sprint(ri.PacketsLost, ri.FractionLost, ri.Jitter), fmt.Sprint(x.riLost, x.riFraction, x.riJitter))
	}
	if ri.PacketsReceived != x.riReceived {
		bad("RemoteInbound PacketsReceived", ri.PacketsReceived, x.riReceived)
	}
	near := func(a, b time.Duration) bool { d := a - b; return d > -2*time.Microsecond && d < 2*time.Microsecond }
	if ri.RoundTripTimeMeasurements != x.riRTTn || !near(ri.RoundTripTime, x.riRTT) || !near(ri.TotalRoundTripTime, x.riTotalRTT+0) {
		bad("RemoteInbound RoundTripTime", fmt.Sprint(ri.RoundTripTime, ri.TotalRoundTripTime, ri.RoundTripTimeMeasurements), fmt.Sprint(x.riRTT, x.riTotalRTT, x.riRTTn))
	}
	if ro.PacketsSent != x.roSent || ro.BytesSent != x.roBytes || ro.ReportsSent != x.roReports {
		bad("RemoteOutbound sent/bytes/reports", fmt.Sprint(ro.PacketsSent, ro.BytesSent, ro.ReportsSent), fmt.Sprint(x.roSent, x.roBytes, x.roReports))
	}
	if ro.RoundTripTimeMeasurements != x.roRTTn || !near(ro.RoundTripTime, x.roRTT) {
		bad("RemoteOutbound RoundTripTime (DLRR)", fmt.Sprint(ro.RoundTripTime, ro.RoundTripTimeMeasurements), fmt.Sprint(x.roRTT, x.roRTTn))
	}
}

// c19CompareAdditive: counters that do not depend on the order of concurrent operations.
func c19CompareAdditive(e *Env, ssrc uint32, x *c19Exp, got *stats.Stats) {
	e.Check()
	o, i := got.OutboundRTPStreamStats, got.InboundRTPStreamStats
	if o.PacketsSent != x.sent || o.BytesSent != x.bytesSent || o.HeaderBytesSent != x.hdrSent {
		e.Violatef("oracle", "c19:lost-update:sent", "SSRC %d after concurrent RTP/RTCP/queries: sent %d packets / %d bytes, a recount gives %d / %d", ssrc, o.PacketsSent, o.BytesSent, x.sent, x.bytesSent)
	}
	if i.PacketsReceived != x.recv || i.BytesReceived != x.bytesRecv {
		e.Violatef("oracle", "c19:lost-update:received", "SSRC %d after concurrent RTP/RTCP/queries: received %d packets / %d bytes, a recount gives %d / %d", ssrc, i.PacketsReceived, i.BytesReceived, x.recv, x.bytesRecv)
	}
	if o.NACKCount != x.nackIn || o.PLICount != x.pliIn || o.FIRCount != x.firIn || i.NACKCount != x.nackOut || i.PLICount != x.pliOut || i.FIRCount != x.firOut {
		e.Violatef("oracle", "c19:lost-update:feedback-counts", "SSRC %d after concurrent RTP/RTCP/queries: NACK/PLI/FIR in %d/%d/%d out %d/%d/%d, a recount gives %d/%d/%d and %d/%d/%d", ssrc, o.NACKCount, o.PLICount, o.FIRCount, i.NACKCount, i.PLICount, i.FIRCount, x.nackIn, x.pliIn, x.firIn, x.nackOut, x.pliOut, x.firOut)
	}
}
