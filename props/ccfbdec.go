package props

import (
	"encoding/binary"
	"fmt"
)

// Independent decoder for RFC 8888 congestion control feedback (section 3.1),
// written from the RFC and not from pion/rtcp.

type ccfbMetric struct {
	Seq      uint16
	Received bool
	ECN      uint8
	ATO      uint16
}

type ccfbBlock struct {
	SSRC    uint32
	Begin   uint16
	Metrics []ccfbMetric
}

type ccfbDecoded struct {
	SenderSSRC uint32
	Blocks     []ccfbBlock
	Timestamp  uint32
	Bytes      int
}

func decodeCCFB(b []byte) (*ccfbDecoded, error) {
	if len(b) < 12 {
		return nil, fmt.Errorf("short packet: %d bytes", len(b))
	}
	if b[0]>>6 != 2 {
		return nil, fmt.Errorf("version %d", b[0]>>6)
	}
	if b[0]&0x20 != 0 {
		return nil, fmt.Errorf("padding bit set")
	}
	if fmtv := b[0] & 0x1f; fmtv != 11 {
		return nil, fmt.Errorf("FMT %d, want 11", fmtv)
	}
	if b[1] != 205 {
		return nil, fmt.Errorf("PT %d, want 205", b[1])
	}
	words := int(binary.BigEndian.Uint16(b[2:]))
	if (words+1)*4 != len(b) {
		return nil, fmt.Errorf("declared length %d bytes, packet has %d", (words+1)*4, len(b))
	}
	d := &ccfbDecoded{SenderSSRC: binary.BigEndian.Uint32(b[4:]), Bytes: len(b)}
	off := 8
	end := len(b) - 4
	for off < end {
		if off+8 > end {
			return nil, fmt.Errorf("truncated report block header at byte %d", off)
		}
		blk := ccfbBlock{SSRC: binary.BigEndian.Uint32(b[off:]), Begin: binary.BigEndian.Uint16(b[off+4:])}
		n := int(binary.BigEndian.Uint16(b[off+6:]))
		off += 8
		if n > 16384 {
			return nil, fmt.Errorf("num_reports %d exceeds 16384", n)
		}
		if off+2*n > end {
			return nil, fmt.Errorf("block for SSRC %d declares %d reports but only %d bytes remain", blk.SSRC, n, end-off)
		}
		for i := 0; i < n; i++ {
			v := binary.BigEndian.Uint16(b[off:])
			off += 2
			blk.Metrics = append(blk.Metrics, ccfbMetric{Seq: blk.Begin + uint16(i), Received: v&0x8000 != 0, ECN: uint8(v >> 13 & 3), ATO: v & 0x1fff})
		}
		if n%2 == 1 {
			if off+2 > end {
				return nil, fmt.Errorf("missing padding after an odd number of reports")
			}
			if b[off] != 0 || b[off+1] != 0 {
				return nil, fmt.Errorf("non-zero padding after an odd number of reports")
			}
			off += 2
		}
		d.Blocks = append(d.Blocks, blk)
	}
	if off != end {
		return nil, fmt.Errorf("blocks end at %d, timestamp expected at %d", off, end)
	}
	d.Timestamp = binary.BigEndian.Uint32(b[end:])
	return d, nil
}
