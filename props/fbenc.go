package props

import (
	"encoding/binary"
	"math/rand"
)

// Independent encoders for TWCC and RFC 8888 feedback, used by the forging
// receiver: they emit every well-formed chunk layout (all chunk types and
// symbol sizes, padded final chunks, run lengths beyond the status count).

type twccSym struct {
	Recv    bool
	DeltaUs int64 // multiple of 250; small when 0..63750, otherwise large (int16 range)
}

// encodeTWCC builds a transport-cc feedback packet.  layout chooses the chunk types.
func encodeTWCC(senderSSRC, mediaSSRC uint32, base uint16, refTime uint32, fbCount uint8, syms []twccSym, layout *rand.Rand, overrun bool) []byte {
	type s2 struct{ code uint16 }
	codes := make([]uint16, len(syms))
	for i, s := range syms {
		switch {
		case !s.Recv:
			codes[i] = 0
		case s.DeltaUs >= 0 && s.DeltaUs <= 255*250:
			codes[i] = 1
		default:
			codes[i] = 2
		}
	}
	var chunks []uint16
	i := 0
	for i < len(codes) {
		// length of the run of equal symbols
		run := 1
		for i+run < len(codes) && codes[i+run] == codes[i] && run < 0x1fff {
			run++
		}
		rem := len(codes) - i
		choice := layout.Intn(3)
		noLarge14 := true
		for k := 0; k < 14 && i+k < len(codes); k++ {
			if codes[i+k] == 2 {
				noLarge14 = false
			}
		}
		switch {
		case choice == 0 || run >= 14 || (run == rem && layout.Intn(2) == 0):
			n := run
			if overrun && run == rem {
				n = run + 1 + layout.Intn(20) // run length beyond the status count
				if n > 0x1fff {
					n = 0x1fff
				}
			}
			chunks = append(chunks, codes[i]<<13|uint16(n))
			i += run
		case choice == 1 && noLarge14:
			var c uint16 = 0x8000
			for k := 0; k < 14; k++ {
				bit := uint16(0)
				if i+k < len(codes) && codes[i+k] != 0 {
					bit = 1
				}
				c |= bit << uint(13-k)
			}
			chunks = append(chunks, c)
			i += min(14, rem)
		default:
			var c uint16 = 0xC000
			for k := 0; k < 7; k++ {
				sym := uint16(0)
				if i+k < len(codes) {
					sym = codes[i+k]
				}
				c |= sym << uint(2*(6-k))
			}
			chunks = append(chunks, c)
			i += min(7, rem)
		}
	}
	body := make([]byte, 0, 64)
	for _, c := range chunks {
		body = binary.BigEndian.AppendUint16(body, c)
	}
	for i, s := range syms {
		switch codes[i] {
		case 1:
			body = append(body, byte(s.DeltaUs/250))
		case 2:
			body = binary.BigEndian.AppendUint16(body, uint16(int16(s.DeltaUs/250)))
		}
	}
	total := 20 + len(body)
	pad := (4 - total%4) % 4
	out := make([]byte, 20, total+pad)
	out[0] = 0x80 | 15
	if pad > 0 {
		out[0] |= 0x20
	}
	out[1] = 205
	binary.BigEndian.PutUint16(out[2:], uint16((total+pad)/4-1))
	binary.BigEndian.PutUint32(out[4:], senderSSRC)
	binary.BigEndian.PutUint32(out[8:], mediaSSRC)
	binary.BigEndian.PutUint16(out[12:], base)
	binary.BigEndian.PutUint16(out[14:], uint16(len(syms)))
	out[16], out[17], out[18] = byte(refTime>>16), byte(refTime>>8), byte(refTime)
	out[19] = fbCount
	out = append(out, body...)
	for k := 0; k < pad; k++ {
		if k == pad-1 {
			out = append(out, byte(pad))
		} else {
			out = append(out, 0)
		}
	}
	return out
}

type ccfbIn struct {
	SSRC    uint32
	Begin   uint16
	Metrics []ccfbMetric
}

// encodeCCFB builds an RFC 8888 congestion control feedback packet.
func encodeCCFB(senderSSRC uint32, blocks []ccfbIn, ts uint32) []byte {
	body := make([]byte, 0, 64)
	body = binary.BigEndian.AppendUint32(body, senderSSRC)
	for _, b := range blocks {
		body = binary.BigEndian.AppendUint32(body, b.SSRC)
		body = binary.BigEndian.AppendUint16(body, b.Begin)
		body = binary.BigEndian.AppendUint16(body, uint16(len(b.Metrics)))
		for _, m := range b.Metrics {
			v := m.ATO & 0x1fff
			if m.Received {
				v |= 0x8000
			}
			v |= uint16(m.ECN&3) << 13
			body = binary.BigEndian.AppendUint16(body, v)
		}
		if len(b.Metrics)%2 == 1 {
			body = append(body, 0, 0)
		}
	}
	body = binary.BigEndian.AppendUint32(body, ts)
	out := []byte{0x80 | 11, 205, 0, 0}
	binary.BigEndian.PutUint16(out[2:], uint16((4+len(body))/4-1))
	return append(out, body...)
}
