// Package props holds the per-property scenarios, generators and oracles, and
// the worker that executes plans inside synctest bubbles under simrt.
package props

import (
	"encoding/json"
	"fmt"
	"math/rand"
	"os"
	"regexp"
	"sort"
	"strings"
	"testing"
	"testing/synctest"
	"time"

	"github.com/pion/logging"

	"verif/simrt"
)

// Plan is one exactly repeatable execution: configuration, workload and
// fault operations, and (optionally) the forced choice tape.
type Plan struct {
	Prop     string            `json:"prop"`
	Seed     int64             `json:"seed"`
	Tier     string            `json:"tier,omitempty"`
	Strategy int               `json:"strategy"`
	PoolDrop int               `json:"pool_drop,omitempty"`
	Cfg      json.RawMessage   `json:"cfg"`
	Ops      []json.RawMessage `json:"ops"`
	Tape     []int             `json:"tape,omitempty"`
	Avoid    []string          `json:"avoid,omitempty"` // known-finding triggers not to generate
	LimitMs  int64             `json:"limit_ms,omitempty"`
	MaxSteps int               `json:"max_steps,omitempty"`
	Variant  string            `json:"variant,omitempty"` // dual-run properties: "A" / "B"
	Soak     bool              `json:"soak,omitempty"`    // long run: the scheduler keeps no per-step records
}

// Violation is one oracle failure.
type Violation struct {
	Class string  `json:"class"` // e.g. oracle, panic, race, deadlock, stranded
	Sig   string  `json:"sig"`   // stable signature used for known-finding matching and minimisation
	Msg   string  `json:"msg"`
	AtMs  float64 `json:"at_ms"`
}

// Outcome is what a worker reports for one executed plan.
type Outcome struct {
	Prop       string         `json:"prop"`
	Seed       int64          `json:"seed"`
	Hash       string         `json:"hash"`
	Steps      int            `json:"steps"`
	Switches   int            `json:"switches"`
	SimMs      float64        `json:"sim_ms"`
	Goroutines int            `json:"goroutines"`
	Strategy   string         `json:"strategy"`
	Violations []Violation    `json:"violations,omitempty"`
	Faults     map[string]int `json:"faults,omitempty"`
	Probes     map[string]int `json:"probes,omitempty"`
	Checks     int            `json:"checks"`
	Truncated  bool           `json:"truncated,omitempty"`
	Stranded   []string       `json:"stranded,omitempty"`
	Stuck      []string       `json:"stuck,omitempty"`
	Sample     string         `json:"sample,omitempty"`
	Plan       *Plan          `json:"plan,omitempty"`  // included when there is a violation or on request
	Trace      []string       `json:"trace,omitempty"` // when tracing
	Tooling    string         `json:"tooling,omitempty"`
	Sites      int            `json:"sites"`
	Emit       []string       `json:"-"` // emission log (dual-run comparison)
}

// DualProp marks properties whose plans are executed twice (variants "A" and
// "B") with identical schedule, clock and faults; the emission logs must agree.
type DualProp interface {
	Dual() bool
}

// Prop is one property's machinery.
type Prop interface {
	ID() string
	// Gen builds the plan for a seed; pure function of (seed, tier, avoid).
	Gen(seed int64, tier string, avoid []string) *Plan
	// Run executes the scenario on the "main" sim goroutine.
	Run(e *Env)
}

var registry = map[string]Prop{}

func register(p Prop) { registry[p.ID()] = p }

// Env is the per-run environment handed to a scenario.
type Env struct {
	S      *simrt.Sched
	Plan   *Plan
	out    *Outcome
	apps   []*simrt.G
	finals []func()
	// StrandedOK: a scenario that does not consider a stranded caller a violation of
	// its property sets this (it is then only counted).
	StrandedIsViolation bool
	sample              string
	locals              []*localStats
	rootStats           localStats
}

//go:norace
func (e *Env) Violatef(class, sig, format string, a ...any) {
	if len(e.out.Violations) >= 20 {
		return
	}
	v := Violation{Class: class, Sig: sig, Msg: fmt.Sprintf(format, a...), AtMs: float64(e.S.Now()) / 1e6}
	e.out.Violations = append(e.out.Violations, v)
	e.S.Logf("VIOLATION %s %s %s", class, sig, v.Msg)
}

type localStats struct {
	faults, probes map[string]int
	checks         int
}

// local returns the calling goroutine's private counters (no sharing between
// goroutines, so the harness adds no happens-before edges and no races of its
// own); the root merges them at the end.
//
//go:norace
func (e *Env) local() *localStats {
	g := simrt.Cur()
	if g == nil {
		return &e.rootStats
	}
	if g.Local == nil {
		ls := &localStats{faults: map[string]int{}, probes: map[string]int{}}
		g.Local = ls
		e.locals = append(e.locals, ls)
	}
	return g.Local.(*localStats)
}

func (e *Env) Fault(kind string) { e.local().faults[kind]++ }

func (e *Env) Probe(name string) { e.local().probes[name]++ }

func (e *Env) Check() { e.local().checks++ }

func (e *Env) mergeStats() {
	for _, ls := range append(e.locals, &e.rootStats) {
		for k, v := range ls.faults {
			e.out.Faults[k] += v
		}
		for k, v := range ls.probes {
			e.out.Probes[k] += v
		}
		e.out.Checks += ls.checks
	}
}

//go:norace
func (e *Env) Avoids(name string) bool {
	for _, a := range e.Plan.Avoid {
		if a == name {
			return true
		}
	}
	return false
}

// Emit records something the interceptor emitted or recorded (dual-run comparison).
//
//go:norace
func (e *Env) Emit(seam string, data []byte) {
	h := uint64(14695981039346656037)
	for _, b := range data {
		h = (h ^ uint64(b)) * 1099511628211
	}
	e.out.Emit = append(e.out.Emit, fmt.Sprintf("%s len=%d fnv=%016x", seam, len(data), h))
	if dbg := os.Getenv("VERIF_EMIT_DEBUG"); dbg != "" {
		if f, err := os.OpenFile(dbg+"."+e.Plan.Variant, os.O_APPEND|os.O_CREATE|os.O_WRONLY, 0o644); err == nil {
			fmt.Fprintf(f, "#%d %s len=%d\n%q\n", len(e.out.Emit), seam, len(data), data)
			f.Close()
		}
	}
}

// SetSample stores a short human-readable description of the case.
func (e *Env) SetSample(s string) { e.sample = s }

// Go starts a harness goroutine.
//
//go:norace
func (e *Env) Go(name string, f func()) *simrt.G {
	return e.S.GoApp(name, f, e.addApp)
}

//go:norace
func (e *Env) addApp(g *simrt.G) { e.apps = append(e.apps, g) }

//go:norace
func (e *Env) appsDone() bool { return simrt.AllDone(e.apps...) }

type doneWaiter struct{ gs []*simrt.G }

//go:norace
func (w doneWaiter) Ready() bool { return simrt.AllDone(w.gs...) }

// Wait parks the calling sim goroutine until all gs are done.
//
//go:norace
func (e *Env) Wait(gs ...*simrt.G) {
	simrt.YieldWait("wait", doneWaiter{gs})
	simrt.Joined(gs...)
}

// WaitTimeout waits for gs for at most d of simulated time; reports whether all finished.
//
//go:norace
func (e *Env) WaitTimeout(d time.Duration, gs ...*simrt.G) bool {
	deadline := e.S.Now() + d
	for !simrt.AllDone(gs...) {
		if e.S.Now() >= deadline {
			return false
		}
		step := d / 20
		if step < time.Millisecond {
			step = time.Millisecond
		}
		simrt.Sleep(step)
	}
	simrt.Joined(gs...)
	return true
}

// AtEnd registers a function evaluated by the root after the run ended.
func (e *Env) AtEnd(f func()) { e.finals = append(e.finals, f) }

// ---------------------------------------------------------------------------

// Execute runs one plan in a fresh bubble and returns its outcome.
func Execute(t *testing.T, p *Plan, trace bool) *Outcome {
	out := &Outcome{Prop: p.Prop, Seed: p.Seed, Faults: map[string]int{}, Probes: map[string]int{}}
	// a sub-test per run: a race report fails the bubble's T and makes
	// synctest.Test Goexit its caller; that must not end the worker loop.
	t.Run(fmt.Sprintf("%s-%d", p.Prop, p.Seed), func(st *testing.T) { execute(st, p, trace, out) })
	return out
}

func execute(t *testing.T, p *Plan, trace bool, out *Outcome) {
	prop := registry[p.Prop]
	if prop == nil {
		out.Tooling = "unknown property " + p.Prop
		return
	}
	defer func() {
		if r := recover(); r != nil {
			msg := fmt.Sprint(r)
			if strings.Contains(msg, "deadlock: main bubble goroutine has exited") || strings.Contains(msg, "blocked goroutines remain") {
				// goroutines abandoned with the bubble (already accounted by the scenario)
				return
			}
			out.Tooling = "harness panic: " + msg
		}
		simrt.S = nil
	}()
	synctest.Test(t, func(t *testing.T) {
		limit := time.Duration(p.LimitMs) * time.Millisecond
		if limit == 0 {
			limit = 10 * time.Minute
		}
		if p.Soak {
			trace = false // soak runs measure the heap: no per-step records
		}
		s := simrt.New(simrt.Config{Seed: p.Seed, Tape: p.Tape, Strategy: p.Strategy, Trace: trace, Limit: limit, MaxSteps: p.MaxSteps, PoolDrop: p.PoolDrop, NoRecord: p.Soak})
		simrt.S = s
		e := &Env{S: s, Plan: p, out: out, rootStats: localStats{faults: map[string]int{}, probes: map[string]int{}}}
		s.GoApp("main", func() { prop.Run(e) }, e.addApp)
		res := s.Run(e.appsDone)
		out.Truncated = res.Truncated
		for _, pr := range s.Panics {
			cls, sig := "panic", "panic:"+pr.Site+":"+firstLine(pr.Value)
			if pr.App {
				sig = "panic(app):" + firstRepoFrame(pr.Stack) + ":" + sigLine(pr.Value)
			} else {
				sig = "panic(lib):" + firstRepoFrame(pr.Stack) + ":" + sigLine(pr.Value)
			}
			e.Violatef(cls, sig, "%s panicked: %s\n%s", pr.G, pr.Value, pr.Stack)
		}
		if !res.Truncated && len(s.Panics) == 0 && !e.appsDone() {
			app, _ := s.Live()
			var where []string
			for _, g := range app {
				where = append(where, g.Name+"@"+g.Where())
			}
			sort.Strings(where)
			out.Stranded = where
			if e.StrandedIsViolation {
				e.Violatef("stranded", "stranded:"+strings.Join(siteSet(app), ","), "callers never returned (no runnable goroutine, simulated time limit reached): %v; live: %v", where, s.Describe())
			}
		}
		out.Stuck = s.Stuck
		if len(s.Stuck) > 0 {
			out.Tooling = "goroutine blocked outside the simulator: " + strings.Join(s.Stuck, "; ")
		}
		s.AcquireAll()
		if len(s.Panics) == 0 && !res.Truncated {
			for _, f := range e.finals {
				f()
			}
		}
		e.mergeStats()
		out.Hash = s.Hash()
		out.Steps = s.Steps
		out.Switches = s.NSwitch
		out.SimMs = float64(s.Now()) / 1e6
		out.Goroutines = s.NumG()
		out.Strategy = s.Strategy()
		out.Sample = e.sample
		out.Sites = len(s.SiteSet)
		if s.NPoolDrop > 0 {
			out.Faults["pool_drop"] += s.NPoolDrop
		}
		if s.NPoolHit > 0 {
			out.Probes["pool_recycled"] += s.NPoolHit
		}
		if s.NMapPerm > 0 {
			out.Faults["map_order_perm"] += s.NMapPerm
		}
		if trace {
			out.Trace = s.Events
			if dbg := os.Getenv("VERIF_TRACE_DEBUG"); dbg != "" {
				os.WriteFile(dbg+"."+p.Variant, []byte(strings.Join(s.Events, "\n")), 0o644)
			}
		}
		if len(out.Violations) > 0 || trace {
			pc := *p
			out.Plan = &pc
		}
		s.Kill()
		simrt.S = nil
	})
}

func siteSet(gs []*simrt.G) []string {
	m := map[string]bool{}
	for _, g := range gs {
		m[g.Where()] = true
	}
	var out []string
	for k := range m {
		out = append(out, k)
	}
	sort.Strings(out)
	return out
}

var digitsRe = regexp.MustCompile(`[0-9]+`)

// sigLine normalises a message for use in a signature (numbers vary with the input).
func sigLine(s string) string { return digitsRe.ReplaceAllString(firstLine(s), "N") }

func firstLine(s string) string {
	if i := strings.IndexByte(s, '\n'); i >= 0 {
		s = s[:i]
	}
	if len(s) > 120 {
		s = s[:120]
	}
	return s
}

// firstRepoFrame extracts the innermost pion/interceptor function of a stack.
func firstRepoFrame(stack string) string {
	for _, l := range strings.Split(stack, "\n") {
		l = strings.TrimSpace(l)
		if strings.HasPrefix(l, "github.com/pion/interceptor") {
			if i := strings.LastIndex(l, "("); i > 0 {
				l = l[:i]
			}
			return strings.TrimPrefix(l, "github.com/pion/interceptor/")
		}
	}
	return "?"
}

// ---------------------------------------------------------------------------
// small helpers shared by scenarios

func mustJSON(v any) json.RawMessage {
	b, err := json.Marshal(v)
	if err != nil {
		panic(err)
	}
	return b
}

func opsOf[T any](p *Plan) []T {
	out := make([]T, 0, len(p.Ops))
	for _, r := range p.Ops {
		var v T
		if err := json.Unmarshal(r, &v); err != nil {
			panic(fmt.Sprintf("bad op %s: %v", r, err))
		}
		out = append(out, v)
	}
	return out
}

func cfgOf[T any](p *Plan) T {
	var v T
	if err := json.Unmarshal(p.Cfg, &v); err != nil {
		panic(fmt.Sprintf("bad cfg: %v", err))
	}
	return v
}

func setOps[T any](p *Plan, ops []T) {
	p.Ops = p.Ops[:0]
	for _, o := range ops {
		p.Ops = append(p.Ops, mustJSON(o))
	}
}

func newPlan(prop string, seed int64, tier string, avoid []string) (*Plan, *rand.Rand) {
	r := rand.New(rand.NewSource(seed ^ 0x5eed5eed))
	return &Plan{Prop: prop, Seed: seed, Tier: tier, Strategy: r.Intn(len(simrt.StrategyNames)), Avoid: avoid}, r
}

func pick[T any](r *rand.Rand, xs ...T) T { return xs[r.Intn(len(xs))] }

func chance(r *rand.Rand, permille int) bool { return r.Intn(1000) < permille }

// discard logger

type nopLogger struct{}

func (nopLogger) Trace(string)          {}
func (nopLogger) Tracef(string, ...any) {}
func (nopLogger) Debug(string)          {}
func (nopLogger) Debugf(string, ...any) {}
func (nopLogger) Info(string)           {}
func (nopLogger) Infof(string, ...any)  {}
func (nopLogger) Warn(string)           {}
func (nopLogger) Warnf(string, ...any)  {}
func (nopLogger) Error(string)          {}
func (nopLogger) Errorf(string, ...any) {}

type nopLoggerFactory struct{}

func (nopLoggerFactory) NewLogger(string) logging.LeveledLogger { return nopLogger{} }

var _ logging.LoggerFactory = nopLoggerFactory{}
