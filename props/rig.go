package props

import (
	"bytes"
	"errors"
	"fmt"
	"io"
	"math/rand"
	"time"

	"github.com/pion/interceptor"
	"github.com/pion/interceptor/pkg/cc"
	"github.com/pion/interceptor/pkg/flexfec"
	"github.com/pion/interceptor/pkg/gcc"
	"github.com/pion/interceptor/pkg/intervalpli"
	"github.com/pion/interceptor/pkg/jitterbuffer"
	"github.com/pion/interceptor/pkg/nack"
	"github.com/pion/interceptor/pkg/pacing"
	"github.com/pion/interceptor/pkg/packetdump"
	"github.com/pion/interceptor/pkg/report"
	"github.com/pion/interceptor/pkg/rfc8888"
	"github.com/pion/interceptor/pkg/rtpfb"
	"github.com/pion/interceptor/pkg/stats"
	"github.com/pion/interceptor/pkg/twcc"
	"github.com/pion/rtcp"
	"github.com/pion/rtp"

	"verif/simrt"
)

// The rig is the generic single-endpoint harness shared by C01, C02, C10,
// C11, C12 and C13: a chain built with the real Registry.Build from real
// factories, bound to harness readers/writers, driven by application
// goroutines (one writer per local stream, one reader per remote stream,
// RTCP read loops, a lifecycle goroutine and an observer).

// rigKinds lists the interceptor kinds the rig can build.
var rigKinds = []string{
	"nack_gen", "nack_resp", "report_recv", "report_send", "twcc_send", "twcc_hdr", "rfc8888", "rtpfb",
	"stats", "dump_send", "dump_recv", "intervalpli", "flexfec", "cc_noop", "cc_leaky", "pacing", "jitterbuffer",
}

// rigBuffering: kinds that queue, delay or reorder application packets (not "pass-through" for C01).
var rigBuffering = map[string]bool{"cc_leaky": true, "pacing": true, "jitterbuffer": true}

type RigStream struct {
	SSRC  uint32 `json:"ssrc"`
	PT    uint8  `json:"pt"`
	Clock uint32 `json:"clock"`
	TWCC  int    `json:"twcc"` // transport-cc extension id (0: not negotiated)
	NACK  bool   `json:"nack"`
	PLI   bool   `json:"pli"`
	RTX   bool   `json:"rtx"`
	FEC   bool   `json:"fec"`
	Seq0  uint16 `json:"seq0"`
}

type RigCfg struct {
	Kinds       []string    `json:"kinds"`
	KSeed       []int64     `json:"kseed"`
	Local       []RigStream `json:"local"`
	Remote      []RigStream `json:"remote"`
	RTCPReaders int         `json:"rtcp_readers"`
	RTCPWErrAt  int         `json:"rtcp_werr_at"` // the n-th RTCP write fails (0: never)
	Reuse       bool        `json:"reuse"`        // callers reuse + scribble buffers (C13 variant B forces it)
	DrainMs     int         `json:"drain_ms"`
	Writers2    bool        `json:"writers2"`               // two writer goroutines per local stream / two readers per remote stream
	WriterLast  bool        `json:"writer_last"`            // BindRTCPWriter is called after the streams are bound
	RTCPStallUs int64       `json:"rtcp_stall_us"`          // the RTCP writer takes this long per call
	LibStallUs  int64       `json:"lib_stall_us,omitempty"` // the next RTP writer takes this long for packets written by library goroutines (-1: yields)
	StrictFB    bool        `json:"strict_fb,omitempty"`    // congestion feedback never declares more received packets than it carries deltas for
	NestAt      int         `json:"nest_at,omitempty"`      // with NestLen > 0: the factories [NestAt, NestAt+NestLen) of the flat list become one nested chain
	NestLen     int         `json:"nest_len,omitempty"`
}

// rigNestFactory builds its members into a chain of their own: a chain is an interceptor, so chains nest.
type rigNestFactory struct{ fs []interceptor.Factory }

func (f rigNestFactory) NewInterceptor(id string) (interceptor.Interceptor, error) {
	var members []interceptor.Interceptor
	for _, m := range f.fs {
		ic, err := m.NewInterceptor(id)
		if err != nil {
			return nil, err
		}
		members = append(members, ic)
	}
	return interceptor.NewChain(members), nil
}

type RigOp struct {
	K     string `json:"k"` // w r c ul ur bl br close get sleep setrate
	S     int    `json:"s,omitempty"`
	R     int    `json:"r,omitempty"`
	AtUs  int64  `json:"at_us"`
	HS    int64  `json:"hs,omitempty"`
	Len   int    `json:"len,omitempty"`
	Err   bool   `json:"err,omitempty"`   // the wrapped reader/writer fails for this packet
	RK    string `json:"rk,omitempty"`    // rtcp kind
	Raw   []byte `json:"raw,omitempty"`   // explicit bytes (C02)
	Stall int64  `json:"stall,omitempty"` // the wrapped writer stalls (us) before it looks at the packet
	Gap   int    `json:"gap,omitempty"`   // sequence number gap before this packet
	W     int    `json:"w,omitempty"`     // which of the stream's goroutines issues it (Writers2)
}

type rigOut struct {
	stream  int
	byLib   bool // written by a library goroutine (injected packet)
	gid     int
	step    int
	at      time.Duration
	hdr     rtp.Header
	payload []byte
	tag     int64 // application identity (op HS) when written by the application
	errRet  bool
}

// rigAppRTCP: one RTCP batch the application wrote through the bound RTCP writer.
type rigAppRTCP struct {
	before, after []byte // the batch marshalled before the call and again after it returned
	n             int
	err           error
	enter, ret    int
	gid           int
}

type rigRTCPOut struct {
	iter int  // step at which the writing library goroutine last woke from one of its own waits
	app  bool // written on an application goroutine (the application's own RTCP)
	gid  int
	step int
	at   time.Duration
	pkts []rtcp.Packet
	raw  []byte
	err  bool
}

type rigWrite struct {
	op         RigOp
	stream     int
	seq        uint16
	hdr        rtp.Header
	payload    []byte
	enter, ret int
	n          int
	err        error
	innerCalls int
	innerErr   bool
}

type rigRead struct {
	op         RigOp
	stream     int
	raw        []byte // what the transport delivered
	enter, ret int
	n          int
	err        error
	got        []byte
	attrHdr    *rtp.Header
	innerErr   bool
}

// Rig is one endpoint under test.
type Rig struct {
	e     *Env
	cfg   RigCfg
	ops   []RigOp
	chain interceptor.Interceptor

	// aux handles registered by the builders
	statsGetters []func(ssrc uint32) *stats.Stats
	estimators   []cc.BandwidthEstimator
	pacingSet    []func(int)
	dumps        []*rigSink
	spyNow       func() time.Time

	localW  []interceptor.RTPWriter
	remoteR []interceptor.RTPReader
	rtcpR   []interceptor.RTCPReader
	rtcpW   interceptor.RTCPWriter
	linfo   []*interceptor.StreamInfo
	rinfo   []*interceptor.StreamInfo

	Out         []*rigOut
	RTCPOut     []*rigRTCPOut
	AppRTCP     []*rigAppRTCP
	Writes      []*rigWrite
	Reads       []*rigRead
	rtcpN       int
	closed      int // step at which Close returned (0: not yet)
	closed2     int // step at which a second, overlapping Close returned
	closeEnt    int
	unboundL    []int // step of UnbindLocalStream return per stream (0: bound)
	unboundR    []int
	reboundL    []int
	reboundR    []int
	stallGaveUp bool
	SlowCalls   []string        // lifecycle calls that returned only when the blocked transport gave up
	unboundAtL  []time.Duration // simulated time of the Unbind
	unboundAtR  []time.Duration
	soak        bool     // long runs: pacers get rates far above the offered load
	LiveAtClose []string // library goroutines still alive when Close returned
	BuildErr    error
	scribble    bool
}

// rigSink is a harness io.Writer ("disk").
type rigSink struct {
	discard bool
	buf     bytes.Buffer
	failAt  int
	stallUs int64 // a slow disk: every write takes this long
	n       int
	e       *Env
}

//go:norace
func (s *rigSink) Write(p []byte) (int, error) {
	if s.stallUs > 0 && simrt.Cur() != nil {
		simrt.Sleep(us(s.stallUs))
	}
	s.n++
	if s.failAt > 0 && s.n == s.failAt {
		return 0, errInjected
	}
	if s.buf.Len() < 1<<20 && !s.discard {
		s.buf.Write(p)
	}
	return len(p), nil
}

func (st RigStream) info() *interceptor.StreamInfo {
	si := &interceptor.StreamInfo{SSRC: st.SSRC, PayloadType: st.PT, ClockRate: st.Clock, MimeType: "video/VP8"}
	if st.NACK {
		si.RTCPFeedback = append(si.RTCPFeedback, interceptor.RTCPFeedback{Type: "nack"})
	}
	if st.PLI {
		si.RTCPFeedback = append(si.RTCPFeedback, interceptor.RTCPFeedback{Type: "nack", Parameter: "pli"})
	}
	if st.TWCC != 0 {
		si.RTPHeaderExtensions = []interceptor.RTPHeaderExtension{{URI: twccURI, ID: st.TWCC}}
		si.RTCPFeedback = append(si.RTCPFeedback, interceptor.RTCPFeedback{Type: "transport-cc"})
	}
	if st.RTX {
		si.SSRCRetransmission, si.PayloadTypeRetransmission = st.SSRC+10000, st.PT+1
	}
	if st.FEC {
		si.SSRCForwardErrorCorrection, si.PayloadTypeForwardErrorCorrection = st.SSRC+20000, 49
	}
	return si
}

// buildKind constructs one factory; seed selects its options.
func (rg *Rig) buildKind(kind string, seed int64) (interceptor.Factory, error) {
	r := rand.New(rand.NewSource(seed))
	lf := nopLoggerFactory{}
	switch kind {
	case "nack_gen":
		opts := []nack.GeneratorOption{nack.WithGeneratorLoggerFactory(lf), nack.GeneratorSize(uint16(pick(r, 64, 128, 512, 8192))),
			nack.GeneratorInterval(time.Duration(pick(r, 5, 20, 100)) * time.Millisecond), nack.GeneratorSkipLastN(uint16(pick(r, 0, 0, 2)))}
		if chance(r, 300) {
			opts = append(opts, nack.GeneratorMaxNacksPerPacket(uint16(pick(r, 1, 3))))
		}
		return nack.NewGeneratorInterceptor(opts...)
	case "nack_resp":
		return nack.NewResponderInterceptor(nack.WithResponderLoggerFactory(lf), nack.ResponderSize(uint16(pick(r, 1, 8, 64, 1024))))
	case "report_recv":
		return report.NewReceiverInterceptor(report.WithReceiverLoggerFactory(lf), report.ReceiverInterval(time.Duration(pick(r, 10, 50, 200))*time.Millisecond))
	case "report_send":
		opts := []report.SenderOption{report.WithSenderLoggerFactory(lf), report.SenderInterval(time.Duration(pick(r, 10, 50, 200)) * time.Millisecond)}
		if chance(r, 300) {
			opts = append(opts, report.SenderUseLatestPacket())
		}
		return report.NewSenderInterceptor(opts...)
	case "twcc_send":
		return twcc.NewSenderInterceptor(twcc.WithLoggerFactory(lf), twcc.SendInterval(time.Duration(pick(r, 10, 50, 100))*time.Millisecond))
	case "twcc_hdr":
		return twcc.NewHeaderExtensionInterceptor()
	case "rfc8888":
		return rfc8888.NewSenderInterceptor(rfc8888.WithLoggerFactory(lf), rfc8888.SendInterval(time.Duration(pick(r, 10, 50, 100))*time.Millisecond))
	case "rtpfb":
		return rtpfb.NewInterceptor(rtpfb.WithLoggerFactory(lf))
	case "stats":
		f, err := stats.NewInterceptor(stats.WithLoggerFactory(lf))
		if err != nil {
			return nil, err
		}
		f.OnNewPeerConnection(func(_ string, g stats.Getter) {
			rg.statsGetters = append(rg.statsGetters, g.Get)
		})
		return f, nil
	case "dump_send", "dump_recv":
		rs, cs := &rigSink{e: rg.e, discard: rg.soak}, &rigSink{e: rg.e, discard: rg.soak}
		if chance(r, 150) {
			rs.failAt = 1 + r.Intn(5)
		}
		if !rg.soak {
			rs.stallUs = int64(pick(r, 0, 0, 0, 300, 3000))
		}
		rg.dumps = append(rg.dumps, rs, cs)
		opts := []packetdump.PacketDumperOption{packetdump.RTPWriter(rs), packetdump.RTCPWriter(cs), packetdump.WithLoggerFactory(lf)}
		if chance(r, 600) {
			// a binary dump (like the rtpdump/pcap writers applications plug in) reads the whole packet
			opts = append(opts, packetdump.RTPBinaryFormatter(func(pkt *rtp.Packet, _ interceptor.Attributes) ([]byte, error) {
				return rawRTP(&pkt.Header, pkt.Payload), nil
			}), packetdump.RTCPBinaryFormatter(func(pkt rtcp.Packet, _ interceptor.Attributes) ([]byte, error) {
				// read-only rendering (rtcp's Marshal writes into some packet types)
				return []byte(fmt.Sprintf("%T %v;", pkt, pkt.DestinationSSRC())), nil
			}))
		}
		// selective dumps: the filters decide what is logged, never what is forwarded
		if chance(r, 300) {
			opts = append(opts, packetdump.RTPFilter(func(p *rtp.Packet) bool { return p.SequenceNumber%2 == 0 }))
		}
		if chance(r, 300) {
			opts = append(opts, packetdump.RTCPFilter(func(ps []rtcp.Packet) bool { return len(ps) > 1 }))
		}
		if chance(r, 400) {
			want := pick(r, 0, 1, 2)
			opts = append(opts, packetdump.RTCPPerPacketFilter(func(p rtcp.Packet) bool {
				switch p.(type) {
				case *rtcp.PictureLossIndication:
					return want == 0
				case *rtcp.ReceiverReport, *rtcp.SenderReport:
					return want == 1
				}
				return want == 2
			}))
		}
		if kind == "dump_send" {
			return packetdump.NewSenderInterceptor(opts...)
		}
		return packetdump.NewReceiverInterceptor(opts...)
	case "intervalpli":
		return intervalpli.NewReceiverInterceptor(intervalpli.WithLoggerFactory(lf), intervalpli.GeneratorInterval(time.Duration(pick(r, 0, 20, 100, 3000))*time.Millisecond))
	case "flexfec":
		return flexfec.NewFecInterceptor(flexfec.NumMediaPackets(uint32(pick(r, 1, 3, 5, 10))), flexfec.NumFECPackets(uint32(pick(r, 1, 2, 3))))
	case "cc_noop", "cc_leaky":
		f, err := cc.NewInterceptor(func() (cc.BandwidthEstimator, error) {
			opts := []gcc.Option{gcc.WithLoggerFactory(lf), gcc.SendSideBWEInitialBitrate(pick(r, 100_000, 1_000_000, 5_000_000))}
			if rg.soak {
				opts = append(opts, gcc.SendSideBWEInitialBitrate(50_000_000), gcc.SendSideBWEMinBitrate(20_000_000))
			}
			if kind == "cc_noop" {
				opts = append(opts, gcc.SendSideBWEPacer(gcc.NewNoOpPacer()))
			}
			return gcc.NewSendSideBWE(opts...)
		})
		if err != nil {
			return nil, err
		}
		f.OnNewPeerConnection(func(_ string, est cc.BandwidthEstimator) {
			rg.estimators = append(rg.estimators, est)
			// an application's change callback naturally asks the estimator
			est.OnTargetBitrateChange(func(int) {
				est.GetTargetBitrate()
				est.GetStats()
			})
		})
		return f, nil
	case "pacing":
		rate := pick(r, 500_000, 5_000_000, 100_000_000)
		if rg.soak {
			rate = 100_000_000
		}
		f := pacing.NewInterceptor(pacing.WithLoggerFactory(lf), pacing.InitialRate(rate), pacing.Interval(time.Duration(pick(r, 1, 5, 10))*time.Millisecond))
		rg.pacingSet = append(rg.pacingSet, func(rate int) { f.SetRate("rig", rate) })
		return f, nil
	case "jitterbuffer":
		return jitterbuffer.NewInterceptor(jitterbuffer.WithLoggerFactory(lf))
	}
	return nil, fmt.Errorf("unknown kind %q", kind)
}

// extraFactories are placed between the members (spies for C01).
type rigMember struct {
	kind    string
	factory interceptor.Factory
}

// Build constructs the chain through the real Registry.
func (rg *Rig) Build(extra func(i int) interceptor.Factory) bool {
	reg := &interceptor.Registry{}
	var fs []interceptor.Factory
	for i, k := range rg.cfg.Kinds {
		if extra != nil {
			if f := extra(i); f != nil {
				fs = append(fs, f)
			}
		}
		f, err := rg.buildKind(k, rg.cfg.KSeed[i])
		if err != nil {
			rg.BuildErr = err
			return false
		}
		fs = append(fs, f)
	}
	if extra != nil {
		if f := extra(len(rg.cfg.Kinds)); f != nil {
			fs = append(fs, f)
		}
	}
	if a := rg.cfg.NestAt; rg.cfg.NestLen > 0 && a < len(fs) {
		b := min(a+rg.cfg.NestLen, len(fs))
		nested := rigNestFactory{fs: append([]interceptor.Factory{}, fs[a:b]...)}
		fs = append(append(append([]interceptor.Factory{}, fs[:a]...), nested), fs[b:]...)
		rg.e.Fault("nested_chain")
	}
	for _, f := range fs {
		reg.Add(f)
	}
	ch, err := reg.Build("rig")
	if err != nil {
		rg.BuildErr = err
		return false
	}
	rg.chain = ch
	return true
}

//go:norace
func rigMark(g *simrt.G, step int, site string) {
	if g.Tag == "" {
		g.Tag = site
	}
	if g.Tag == site {
		g.Mark = step
	}
}

func newRig(e *Env, cfg RigCfg, ops []RigOp) *Rig {
	e.S.OnRelease = func(g *simrt.G, woke bool) {
		// (a stall injected inside a harness writer is not a new iteration)
		// an iteration begins when the goroutine wakes at its *own loop's* wait (the first place it ever waited),
		// not when it wakes from a hand-off inside the iteration (a send to a logger goroutine, a stalled writer)
		if woke && !g.App && g.Where() != "sleep" {
			rigMark(g, e.S.Step(), g.Where())
		}
	}
	return &Rig{e: e, cfg: cfg, ops: ops, unboundL: make([]int, len(cfg.Local)), unboundR: make([]int, len(cfg.Remote)), reboundL: make([]int, len(cfg.Local)), reboundR: make([]int, len(cfg.Remote)), unboundAtL: make([]time.Duration, len(cfg.Local)), unboundAtR: make([]time.Duration, len(cfg.Remote))}
}

//go:norace
func (rg *Rig) logOut(o *rigOut) {
	o.step, o.at = rg.e.S.Step(), rg.e.S.Now()
	rg.Out = append(rg.Out, o)
}

//go:norace
func (rg *Rig) logRTCP(o *rigRTCPOut) bool {
	o.step, o.at = rg.e.S.Step(), rg.e.S.Now()
	if g := simrt.Cur(); g != nil {
		o.iter = g.Mark
	}
	rg.rtcpN++
	if rg.cfg.RTCPWErrAt > 0 && rg.rtcpN == rg.cfg.RTCPWErrAt {
		o.err = true
	}
	rg.RTCPOut = append(rg.RTCPOut, o)
	return o.err
}

//go:norace
func (rg *Rig) logWrite(w *rigWrite, enter bool) {
	if enter {
		w.enter, w.ret = rg.e.S.Step(), 1<<60
		rg.Writes = append(rg.Writes, w)
	} else {
		w.ret = rg.e.S.Step()
	}
}

//go:norace
func (rg *Rig) logAppRTCP(a *rigAppRTCP, enter bool) {
	if enter {
		a.enter, a.ret = rg.e.S.Step(), 1<<60
		if g := simrt.Cur(); g != nil {
			a.gid = g.ID
		}
		rg.AppRTCP = append(rg.AppRTCP, a)
	} else {
		a.ret = rg.e.S.Step()
	}
}

//go:norace
func (rg *Rig) logRead(r *rigRead, enter bool) {
	if enter {
		r.enter, r.ret = rg.e.S.Step(), 1<<60
		rg.Reads = append(rg.Reads, r)
	} else {
		r.ret = rg.e.S.Step()
	}
}

//go:norace
func (rg *Rig) mark(p *int) { *p = rg.e.S.Step() }

//go:norace
func (rg *Rig) rebound(local bool, s int) {
	if local {
		rg.unboundL[s] = 0
		rg.reboundL[s] = rg.e.S.Step()
	} else {
		rg.unboundR[s] = 0
		rg.reboundR[s] = rg.e.S.Step()
	}
}

// Bind wires the chain to the harness seams.
func (rg *Rig) Bind() {
	if !rg.cfg.WriterLast {
		rg.bindRTCPWriter()
	}
	for s, st := range rg.cfg.Local {
		rg.linfo = append(rg.linfo, st.info())
		rg.localW = append(rg.localW, rg.bindLocal(s))
	}
	for s, st := range rg.cfg.Remote {
		rg.rinfo = append(rg.rinfo, st.info())
		rg.remoteR = append(rg.remoteR, rg.bindRemote(s))
	}
	for i := 0; i < rg.cfg.RTCPReaders; i++ {
		rg.rtcpR = append(rg.rtcpR, rg.bindRTCPReader(i))
	}
	if rg.cfg.WriterLast {
		rg.bindRTCPWriter()
	}
}

func (rg *Rig) bindRTCPWriter() {
	e := rg.e
	rg.rtcpW = rg.chain.BindRTCPWriter(interceptor.RTCPWriterFunc(func(pkts []rtcp.Packet, _ interceptor.Attributes) (int, error) {
		g := simrt.Cur()
		o := &rigRTCPOut{pkts: pkts}
		if g != nil {
			o.gid, o.app = g.ID, g.App
		}
		if raw, err := rtcp.Marshal(pkts); err == nil {
			o.raw = raw
		}
		if rg.cfg.RTCPStallUs > 0 && g != nil && !g.App {
			e.Fault("stall_rtcp_writer")
			simrt.Sleep(us(rg.cfg.RTCPStallUs))
		}
		if rg.logRTCP(o) {
			e.Fault("rtcp_writer_err")
			if rg.cfg.RTCPWErrAt%2 == 0 {
				// what a transport that has just gone away reports
				e.Fault("rtcp_writer_err_closed_pipe")
				return 0, errInjectedClosed
			}
			return 0, errInjected
		}
		return len(o.raw), nil
	}))
}

type rigCall struct {
	w *rigWrite
	r *rigRead
}

func (rg *Rig) bindLocal(s int) interceptor.RTPWriter {
	e := rg.e
	return rg.chain.BindLocalStream(rg.linfo[s], interceptor.RTPWriterFunc(func(h *rtp.Header, pl []byte, a interceptor.Attributes) (int, error) {
		g := simrt.Cur()
		var call *rigWrite
		if c, ok := a.Get("rig").(*rigWrite); ok {
			call = c
		}
		byLib := g != nil && !g.App
		if call != nil && !byLib {
			if call.op.Stall > 0 {
				e.Fault("stall_writer")
				simrt.Sleep(us(call.op.Stall))
			} else if call.op.Stall < 0 {
				simrt.Yield("downstream")
			}
		}
		if byLib && rg.cfg.LibStallUs != 0 {
			// a slow transport: retransmissions, FEC and paced packets are still on their way for a while
			e.Fault("stall_writer_lib")
			switch {
			case rg.cfg.LibStallUs > 0:
				simrt.Sleep(us(rg.cfg.LibStallUs))
			case rg.cfg.LibStallUs == -2:
				// a transport that stays blocked until the connection is closed
				for i := 0; i < 3000 && !rg.stallOver(i == 2999); i++ {
					simrt.Sleep(time.Millisecond)
				}
			default:
				simrt.Yield("downstream-lib")
			}
		}
		o := &rigOut{stream: s, byLib: byLib, hdr: h.Clone(), payload: append([]byte{}, pl...)}
		if g != nil {
			o.gid = g.ID
		}
		// application identity: an application packet carries its own SSRC and the tag in the attributes
		if call != nil && h.SSRC == rg.cfg.Local[s].SSRC && h.SequenceNumber == call.seq {
			o.tag = call.op.HS
			rigInner(call)
			if call.op.Err {
				o.errRet = true
				call.innerErr = true
				rg.logOut(o)
				e.Fault("writer_err")
				return 0, errInjected
			}
		}
		rg.logOut(o)
		return len(pl), nil
	}))
}

//go:norace
func rigInner(c *rigWrite) { c.innerCalls++ }

// slow notes a lifecycle call that did not return while the transport stayed blocked (it came back only
// because the harness's blocked transport gives up after three seconds so that the run can end).
//
//go:norace
func (rg *Rig) slow(what string, t0 time.Duration) {
	if rg.cfg.LibStallUs == -2 && rg.e.S.Now()-t0 >= 2500*time.Millisecond {
		rg.SlowCalls = append(rg.SlowCalls, what)
	}
}

// stallOver: the blocked transport lets go when the connection is being closed, or (no Close in this plan)
// after three seconds, and then stays usable.
//
//go:norace
func (rg *Rig) stallOver(timedOut bool) bool {
	if timedOut {
		rg.stallGaveUp = true
	}
	return rg.closeEnt != 0 || rg.stallGaveUp
}

func (rg *Rig) bindRemote(s int) interceptor.RTPReader {
	e := rg.e
	return rg.chain.BindRemoteStream(rg.rinfo[s], interceptor.RTPReaderFunc(func(b []byte, a interceptor.Attributes) (int, interceptor.Attributes, error) {
		call, _ := a.Get("rig").(*rigRead)
		if call == nil {
			return 0, a, io.EOF
		}
		simrt.SleepUntil(us(call.op.AtUs))
		if call.op.Err {
			call.innerErr = true
			e.Fault("reader_err")
			n := copy(b, call.raw) // the bytes are in the buffer, but the read failed: nobody may account the packet
			if (call.op.HS^(call.op.AtUs/1000))&1 == 0 {
				// the io.Reader flavour of a failed read: a length together with the error (a truncated datagram)
				e.Fault("reader_err_with_length")
				return n, a, errInjected
			}
			return 0, a, errInjected
		}
		n := copy(b, call.raw)
		return n, a, nil
	}))
}

func (rg *Rig) bindRTCPReader(i int) interceptor.RTCPReader {
	e := rg.e
	return rg.chain.BindRTCPReader(interceptor.RTCPReaderFunc(func(b []byte, a interceptor.Attributes) (int, interceptor.Attributes, error) {
		call, _ := a.Get("rig").(*rigRead)
		if call == nil {
			return 0, a, io.EOF
		}
		simrt.SleepUntil(us(call.op.AtUs))
		if call.op.Err {
			call.innerErr = true
			e.Fault("reader_err")
			return 0, a, errInjected
		}
		n := copy(b, call.raw)
		return n, a, nil
	}))
}

// rtcpFor builds the RTCP input for an op (well-formed kinds; C02 passes Raw).
func (rg *Rig) rtcpFor(o RigOp) []byte {
	if len(o.Raw) > 0 {
		return o.Raw
	}
	r := rand.New(rand.NewSource(o.HS))
	lssrc := func() uint32 {
		if len(rg.cfg.Local) == 0 || chance(r, 150) {
			return 0xdead0000 + uint32(r.Intn(4))
		}
		return rg.cfg.Local[r.Intn(len(rg.cfg.Local))].SSRC
	}
	rssrc := func() uint32 {
		if len(rg.cfg.Remote) == 0 || chance(r, 150) {
			return 0xbeef0000 + uint32(r.Intn(4))
		}
		return rg.cfg.Remote[r.Intn(len(rg.cfg.Remote))].SSRC
	}
	var pkts []rtcp.Packet
	one := func(kind string) {
		switch kind {
		case "nack":
			ssrc := lssrc()
			base := uint16(r.Intn(65536))
			for _, st := range rg.cfg.Local {
				if st.SSRC == ssrc {
					base = st.Seq0 + uint16(r.Intn(pick(r, 20, 200)))
				}
			}
			n := &rtcp.TransportLayerNack{SenderSSRC: 1, MediaSSRC: ssrc}
			for k := 1 + r.Intn(2); k > 0; k-- {
				n.Nacks = append(n.Nacks, rtcp.NackPair{PacketID: base + uint16(r.Intn(20)), LostPackets: rtcp.PacketBitmap(r.Intn(65536) & r.Intn(65536))})
			}
			pkts = append(pkts, n)
		case "sr":
			pkts = append(pkts, &rtcp.SenderReport{SSRC: rssrc(), NTPTime: r.Uint64(), RTPTime: r.Uint32(), PacketCount: r.Uint32(), OctetCount: r.Uint32()})
		case "rr":
			pkts = append(pkts, &rtcp.ReceiverReport{SSRC: 5, Reports: []rtcp.ReceptionReport{{SSRC: lssrc(), FractionLost: uint8(r.Intn(256)), TotalLost: uint32(r.Intn(1000)), LastSequenceNumber: r.Uint32(), Jitter: uint32(r.Intn(5000)), LastSenderReport: r.Uint32(), Delay: uint32(r.Intn(65536))}}})
		case "pli":
			pkts = append(pkts, &rtcp.PictureLossIndication{SenderSSRC: 5, MediaSSRC: lssrc()})
		case "fir":
			pkts = append(pkts, &rtcp.FullIntraRequest{SenderSSRC: 5, MediaSSRC: lssrc(), FIR: []rtcp.FIREntry{{SSRC: lssrc(), SequenceNumber: uint8(r.Intn(256))}}})
		case "remb":
			pkts = append(pkts, &rtcp.ReceiverEstimatedMaximumBitrate{SenderSSRC: 5, Bitrate: float32(r.Intn(5_000_000)), SSRCs: []uint32{lssrc()}})
		case "xr":
			pkts = append(pkts, &rtcp.ExtendedReport{SenderSSRC: rssrc(), Reports: []rtcp.ReportBlock{
				&rtcp.DLRRReportBlock{Reports: []rtcp.DLRRReport{{SSRC: lssrc(), LastRR: r.Uint32(), DLRR: uint32(r.Intn(65536))}}},
				&rtcp.ReceiverReferenceTimeReportBlock{NTPTimestamp: r.Uint64()},
			}})
		}
	}
	switch o.RK {
	case "twcc":
		n := 1 + r.Intn(40)
		syms := make([]twccSym, n)
		for i := range syms {
			if chance(r, 700) {
				syms[i] = twccSym{Recv: true, DeltaUs: int64(r.Intn(400)) * 250}
				if chance(r, 100) {
					syms[i].DeltaUs = int64(r.Intn(60000)-30000) * 250
				}
			}
		}
		return encodeTWCC(7, lssrc(), uint16(r.Intn(pick(r, 10, 300))), uint32(r.Intn(1<<20)), uint8(r.Intn(256)), syms, r, chance(r, 100) && !rg.cfg.StrictFB)
	case "ccfb":
		var blocks []ccfbIn
		for k := 1 + r.Intn(2); k > 0; k-- {
			b := ccfbIn{SSRC: lssrc(), Begin: uint16(r.Intn(65536))}
			for _, st := range rg.cfg.Local {
				if st.SSRC == b.SSRC {
					b.Begin = st.Seq0 + uint16(r.Intn(pick(r, 5, 100)))
				}
			}
			for i := r.Intn(30); i > 0; i-- {
				b.Metrics = append(b.Metrics, ccfbMetric{Received: chance(r, 700), ECN: uint8(r.Intn(4)), ATO: uint16(r.Intn(0x2000))})
			}
			blocks = append(blocks, b)
		}
		return encodeCCFB(7, blocks, r.Uint32())
	case "compound":
		for k := 2 + r.Intn(3); k > 0; k-- {
			one(pick(r, "nack", "sr", "rr", "pli", "fir", "xr", "remb"))
		}
	case "compound_w":
		// what an application writes itself (no extended reports: pion/rtcp's Marshal writes into them, so the
		// transport's marshalling would race with any asynchronous reader of the same packet objects)
		for k := 2 + r.Intn(3); k > 0; k-- {
			one(pick(r, "nack", "rr", "pli", "fir", "remb"))
		}
	default:
		one(o.RK)
	}
	raw, err := rtcp.Marshal(pkts)
	if err != nil {
		panic(err)
	}
	return raw
}

// rtpFor builds the incoming RTP packet for a remote-stream op.
func (rg *Rig) rtpFor(o RigOp, s int, seq uint16) []byte {
	if len(o.Raw) > 0 {
		return o.Raw
	}
	st := rg.cfg.Remote[s]
	h := hdrFromSeed(o.HS, st.SSRC, st.PT, seq, uint32(seq)*90*33, uint8(st.TWCC))
	if st.TWCC != 0 {
		ext, _ := (&rtp.TransportCCExtension{TransportSequence: seq + uint16(s)*7}).Marshal()
		if err := h.SetExtension(uint8(st.TWCC), ext); err != nil && h.ExtensionProfile == 0 {
			h.Extension = false
		}
	}
	return rawRTP(h, payloadFromSeed(o.HS, o.Len))
}

// Run executes the ops; returns after every application goroutine finished
// (or the drain time elapsed).  The caller evaluates the logs.
func (rg *Rig) Run() {
	e := rg.e
	var gs []*simrt.G
	nW := 1
	if rg.cfg.Writers2 {
		nW = 2
	}
	// local writers
	for s := range rg.cfg.Local {
		for w := 0; w < nW; w++ {
			var sops []RigOp
			for _, o := range rg.ops {
				if o.K == "w" && o.S == s && o.W%nW == w {
					sops = append(sops, o)
				}
			}
			if len(sops) == 0 && w > 0 {
				continue
			}
			st := rg.cfg.Local[s]
			gs = append(gs, e.Go(fmt.Sprintf("writer%d.%d", s, w), func() {
				seq := st.Seq0 + uint16(w)*30000
				h := &rtp.Header{}
				buf := make([]byte, 0, 4096) // (never nil: an empty payload must look the same with fresh and with reused buffers)
				for _, o := range sops {
					simrt.SleepUntil(us(o.AtUs))
					seq += uint16(o.Gap)
					hh := hdrFromSeed(o.HS, st.SSRC, st.PT, seq, uint32(seq)*3000, uint8(st.TWCC))
					pl := payloadFromSeed(o.HS, o.Len)
					call := &rigWrite{op: o, stream: s, seq: seq, hdr: hh.Clone(), payload: append([]byte{}, pl...)}
					seq++
					attrs := interceptor.Attributes{"rig": call}
					rg.logWrite(call, true)
					if rg.cfg.Reuse {
						*h = hh.Clone()
						buf = append(buf[:0], pl...)
						call.n, call.err = rg.localW[s].Write(h, buf, attrs)
						rg.logWrite(call, false)
						rigScribble(h, buf)
					} else {
						call.n, call.err = rg.localW[s].Write(hh, pl, attrs)
						rg.logWrite(call, false)
						if !bytes.Equal(pl, call.payload) {
							e.Violatef("oracle", "rig:payload-written-into", "the interceptor chain %v modified the caller's payload during Write", rg.cfg.Kinds)
						}
					}
				}
			}))
		}
	}
	// remote readers
	for s := range rg.cfg.Remote {
		for w := 0; w < nW; w++ {
			var sops []RigOp
			for _, o := range rg.ops {
				if o.K == "r" && o.S == s && o.W%nW == w {
					sops = append(sops, o)
				}
			}
			if len(sops) == 0 && w > 0 {
				continue
			}
			st := rg.cfg.Remote[s]
			gs = append(gs, e.Go(fmt.Sprintf("reader%d.%d", s, w), func() {
				seq := st.Seq0 + uint16(w)*30000
				var buf []byte
				for _, o := range sops {
					seq += uint16(o.Gap)
					call := &rigRead{op: o, stream: s, raw: rg.rtpFor(o, s, seq)}
					seq++
					if rg.cfg.Reuse && buf != nil {
						for i := range buf {
							buf[i] = 0xEE // stale data of the previous packet beyond n
						}
					} else {
						buf = make([]byte, 1500)
						for i := range buf {
							buf[i] = 0xEE
						}
					}
					rg.logRead(call, true)
					n, attr, err := rg.remoteR[s].Read(buf, interceptor.Attributes{"rig": call})
					call.n, call.err = n, err
					if err == nil && n >= 0 && n <= len(buf) {
						call.got = append([]byte{}, buf[:n]...)
						if attr != nil {
							if hdr, herr := attr.GetRTPHeader(buf[:n]); herr == nil {
								hc := hdr.Clone()
								call.attrHdr = &hc
							}
						}
					}
					rg.logRead(call, false)
				}
			}))
		}
	}
	// RTCP readers
	for i := 0; i < rg.cfg.RTCPReaders; i++ {
		var rops []RigOp
		for _, o := range rg.ops {
			if o.K == "c" && o.R%rg.cfg.RTCPReaders == i {
				rops = append(rops, o)
			}
		}
		gs = append(gs, e.Go(fmt.Sprintf("rtcp-reader%d", i), func() {
			buf := make([]byte, 1500)
			for _, o := range rops {
				call := &rigRead{op: o, stream: -1 - i, raw: rg.rtcpFor(o)}
				for k := range buf {
					buf[k] = 0xEE
				}
				rg.logRead(call, true)
				n, _, err := rg.rtcpR[i].Read(buf, interceptor.Attributes{"rig": call})
				call.n, call.err = n, err
				if err == nil && n >= 0 && n <= len(buf) {
					call.got = append([]byte{}, buf[:n]...)
				}
				rg.logRead(call, false)
			}
		}))
	}
	// application RTCP writes, lifecycle and observer
	gs = append(gs, e.Go("lifecycle", func() {
		for _, o := range rg.ops {
			switch o.K {
			case "ul":
				if o.S < len(rg.cfg.Local) && rg.unboundL[o.S] == 0 {
					simrt.SleepUntil(us(o.AtUs))
					e.Fault("unbind_at")
					t0 := e.S.Now()
					rg.chain.UnbindLocalStream(rg.linfo[o.S])
					rg.slow("UnbindLocalStream", t0)
					rg.mark(&rg.unboundL[o.S])
					rg.unboundAtL[o.S] = e.S.Now()
				}
			case "ur":
				if o.S < len(rg.cfg.Remote) && rg.unboundR[o.S] == 0 {
					simrt.SleepUntil(us(o.AtUs))
					e.Fault("unbind_at")
					t0 := e.S.Now()
					rg.chain.UnbindRemoteStream(rg.rinfo[o.S])
					rg.slow("UnbindRemoteStream", t0)
					rg.mark(&rg.unboundR[o.S])
					rg.unboundAtR[o.S] = e.S.Now()
				}
			case "bl":
				if o.S < len(rg.cfg.Local) {
					simrt.SleepUntil(us(o.AtUs))
					e.Fault("rebind")
					t0 := e.S.Now()
					rg.localW[o.S] = rg.bindLocal(o.S)
					rg.slow("BindLocalStream", t0)
					rg.rebound(true, o.S)
				}
			case "br":
				if o.S < len(rg.cfg.Remote) {
					simrt.SleepUntil(us(o.AtUs))
					e.Fault("rebind")
					t0 := e.S.Now()
					rg.remoteR[o.S] = rg.bindRemote(o.S)
					rg.slow("BindRemoteStream", t0)
					rg.rebound(false, o.S)
				}
			case "bn":
				// a further stream pair (new SSRCs, no traffic) is bound while the others are busy
				simrt.SleepUntil(us(o.AtUs))
				e.Fault("bind_new_stream")
				k := uint32(o.HS & 7)
				rg.chain.BindLocalStream(RigStream{SSRC: 9100 + k, PT: 96, Clock: 90000, TWCC: 5, NACK: true}.info(), interceptor.RTPWriterFunc(func(_ *rtp.Header, pl []byte, _ interceptor.Attributes) (int, error) { return len(pl), nil }))
				rg.chain.BindRemoteStream(RigStream{SSRC: 9200 + k, PT: 97, Clock: 90000, TWCC: 4, NACK: true}.info(), interceptor.RTPReaderFunc(func([]byte, interceptor.Attributes) (int, interceptor.Attributes, error) { return 0, nil, io.EOF }))
			case "close":
				simrt.SleepUntil(us(o.AtUs))
				e.Fault("close_at")
				rg.DoClose()
			case "aw":
				// the application writes RTCP through the bound writer
				simrt.SleepUntil(us(o.AtUs))
				if pk, err := rtcp.Unmarshal(rg.rtcpFor(RigOp{RK: pick(rand.New(rand.NewSource(o.HS)), "pli", "fir", "rr", "nack", "compound_w", "compound_w"), HS: o.HS})); err == nil {
					a := &rigAppRTCP{}
					a.before, _ = rtcp.Marshal(pk)
					rg.logAppRTCP(a, true)
					a.n, a.err = rg.rtcpW.Write(pk, interceptor.Attributes{})
					a.after, _ = rtcp.Marshal(pk)
					rg.logAppRTCP(a, false)
				}
			}
		}
	}))
	gs = append(gs, e.Go("lifecycle2", func() {
		for _, o := range rg.ops {
			if o.K == "close2" {
				simrt.SleepUntil(us(o.AtUs))
				e.Fault("second_close")
				rg.chain.Close()
				_, lib := rg.e.S.Live()
				for _, g := range lib {
					rg.LiveAtClose = append(rg.LiveAtClose, g.Site)
				}
				rg.mark(&rg.closed2)
			}
		}
	}))
	gs = append(gs, e.Go("observer", func() {
		for _, o := range rg.ops {
			switch o.K {
			case "get":
				simrt.SleepUntil(us(o.AtUs))
				for _, g := range rg.statsGetters {
					for _, st := range rg.cfg.Local {
						g(st.SSRC)
					}
					for _, st := range rg.cfg.Remote {
						g(st.SSRC)
					}
				}
				for _, est := range rg.estimators {
					est.GetTargetBitrate()
					est.GetStats()
				}
			case "setrate":
				simrt.SleepUntil(us(o.AtUs))
				for _, f := range rg.pacingSet {
					f(100_000 + int(o.HS%5_000_000))
				}
			}
		}
	}))
	e.Wait(gs...)
}

// DoClose closes the chain once and records when.
func (rg *Rig) DoClose() error {
	if rg.closeEnt != 0 {
		return nil
	}
	rg.mark(&rg.closeEnt)
	err := rg.chain.Close()
	rg.mark(&rg.closed)
	_, lib := rg.e.S.Live()
	for _, g := range lib {
		rg.LiveAtClose = append(rg.LiveAtClose, g.Site)
	}
	return err
}

func rigScribble(h *rtp.Header, buf []byte) {
	for i := range buf {
		buf[i] ^= 0x5C
	}
	h.Timestamp ^= 0x13579B
	h.Marker = !h.Marker
	h.SequenceNumber ^= 0x4000
	for i := range h.CSRC {
		h.CSRC[i] ^= 0xA5A5A5A5
	}
	for _, id := range h.GetExtensionIDs() {
		b := h.GetExtension(id)
		for i := range b {
			b[i] ^= 0xC3
		}
	}
}

var errRigSpy = errors.New("spy close error")
