package props

import (
	"bytes"
	"fmt"
	"math/rand"
	"time"

	"github.com/pion/interceptor"
	"github.com/pion/rtp"
)

const twccURI = "http://www.ietf.org/id/draft-holmer-rmcat-transport-wide-cc-extensions-01"

func us(d int64) time.Duration { return time.Duration(d) * time.Microsecond }

// rtpBytes marshals a minimal RTP packet.
func rtpBytes(ssrc uint32, pt uint8, seq uint16, ts uint32, payloadLen int) []byte {
	h := rtp.Header{Version: 2, SSRC: ssrc, PayloadType: pt, SequenceNumber: seq, Timestamp: ts}
	pl := make([]byte, payloadLen)
	for i := range pl {
		pl[i] = byte(int(seq) + i)
	}
	p := rtp.Packet{Header: h, Payload: pl}
	b, err := p.Marshal()
	if err != nil {
		panic(err)
	}
	return b
}

func streamInfo(ssrc uint32, pt uint8, clock uint32, fb ...string) *interceptor.StreamInfo {
	si := &interceptor.StreamInfo{SSRC: ssrc, PayloadType: pt, ClockRate: clock, MimeType: "video/VP8"}
	for _, f := range fb {
		switch f {
		case "nack":
			si.RTCPFeedback = append(si.RTCPFeedback, interceptor.RTCPFeedback{Type: "nack"})
		case "pli":
			si.RTCPFeedback = append(si.RTCPFeedback, interceptor.RTCPFeedback{Type: "nack", Parameter: "pli"})
		case "twcc":
			si.RTCPFeedback = append(si.RTCPFeedback, interceptor.RTCPFeedback{Type: "transport-cc"})
		case "ccfb":
			si.RTCPFeedback = append(si.RTCPFeedback, interceptor.RTCPFeedback{Type: "ack", Parameter: "ccfb"})
		}
	}
	return si
}

// verTrack counts, per stream, packets whose inner read has completed and
// packets whose outer Read has returned; the difference is "in flight".
type verTrack struct {
	inner, outer int
}

// hdrFromSeed deterministically builds an RTP header shape: CSRC 0-15, no /
// one-byte / two-byte extensions with pre-existing ids, marker, padding flag.
// avoidExt is an extension id that must not be used (the TWCC id under test).
func hdrFromSeed(hs int64, ssrc uint32, pt uint8, seq uint16, ts uint32, avoidExt uint8) *rtp.Header {
	r := newRng(hs)
	h := &rtp.Header{Version: 2, SSRC: ssrc, PayloadType: pt, SequenceNumber: seq, Timestamp: ts}
	h.Marker = r.Intn(4) == 0
	switch r.Intn(5) {
	case 0:
		n := 1 + r.Intn(15)
		for i := 0; i < n; i++ {
			h.CSRC = append(h.CSRC, r.Uint32())
		}
	case 1:
		h.CSRC = []uint32{r.Uint32()}
	}
	switch r.Intn(4) {
	case 1: // one-byte profile
		n := 1 + r.Intn(3)
		for i := 0; i < n; i++ {
			id := uint8(1 + r.Intn(14))
			if id == avoidExt {
				continue
			}
			pl := make([]byte, 1+r.Intn(16))
			r.Read(pl)
			_ = h.SetExtension(id, pl)
		}
	case 2: // two-byte profile
		h.Extension = true
		h.ExtensionProfile = 0x1000
		n := 1 + r.Intn(3)
		for i := 0; i < n; i++ {
			id := uint8(1 + r.Intn(200))
			if id == avoidExt {
				continue
			}
			pl := make([]byte, r.Intn(40))
			r.Read(pl)
			_ = h.SetExtension(id, pl)
		}
		if len(h.Extensions) == 0 {
			h.Extension = false
			h.ExtensionProfile = 0
		}
	}
	return h
}

func payloadFromSeed(hs int64, n int) []byte {
	r := newRng(hs ^ 0x7a7a)
	b := make([]byte, n)
	r.Read(b)
	return b
}

// hdrEqualExcept compares two headers field by field, ignoring extension id `skip` (0 = none).
func hdrDiff(a, b *rtp.Header, skip uint8) string {
	if a.Version != b.Version || a.Padding != b.Padding || a.Marker != b.Marker || a.PayloadType != b.PayloadType ||
		a.SequenceNumber != b.SequenceNumber || a.Timestamp != b.Timestamp || a.SSRC != b.SSRC {
		return fmt.Sprintf("fixed fields differ: %+v vs %+v", hdrBrief(a), hdrBrief(b))
	}
	if len(a.CSRC) != len(b.CSRC) {
		return fmt.Sprintf("CSRC count %d vs %d", len(a.CSRC), len(b.CSRC))
	}
	for i := range a.CSRC {
		if a.CSRC[i] != b.CSRC[i] {
			return fmt.Sprintf("CSRC[%d] %d vs %d", i, a.CSRC[i], b.CSRC[i])
		}
	}
	ea := map[uint8][]byte{}
	for _, id := range a.GetExtensionIDs() {
		if id != skip {
			ea[id] = a.GetExtension(id)
		}
	}
	nb := 0
	for _, id := range b.GetExtensionIDs() {
		if id == skip {
			continue
		}
		nb++
		if pa, ok := ea[id]; !ok || !bytes.Equal(pa, b.GetExtension(id)) {
			return fmt.Sprintf("extension %d differs: %x vs %x", id, pa, b.GetExtension(id))
		}
	}
	if nb != len(ea) {
		return fmt.Sprintf("extension count %d vs %d", len(ea), nb)
	}
	return ""
}

func hdrBrief(h *rtp.Header) string {
	return fmt.Sprintf("{P:%v M:%v PT:%d seq:%d ts:%d ssrc:%d cc:%d ext:%v/%#x n=%d}", h.Padding, h.Marker, h.PayloadType, h.SequenceNumber, h.Timestamp, h.SSRC, len(h.CSRC), h.Extension, h.ExtensionProfile, len(h.Extensions))
}

func newRng(seed int64) *rand.Rand { return rand.New(rand.NewSource(seed)) }

// rawRTP serialises header + payload (+ trailing padding when the header
// carries a padding size) the way a transport does: header bytes followed by
// the payload as given.  It does not go through rtp.Packet.Marshal.
func rawRTP(h *rtp.Header, payload []byte) []byte {
	hb, err := h.Marshal()
	if err != nil {
		panic(err)
	}
	out := append(hb, payload...)
	if h.Padding && h.PaddingSize > 0 {
		pad := make([]byte, h.PaddingSize)
		pad[len(pad)-1] = h.PaddingSize
		out = append(out, pad...)
	}
	return out
}
