package props

import (
	"time"

	"github.com/pion/interceptor"
	"github.com/pion/rtp"
)

const twccURI = "http://www.ietf.org/id/draft-holmer-rmcat-transport-wide-cc-extensions-01"

func us(d int64) time.Duration { return time.Duration(d) * time.Microsecond }

// rtpBytes marshals a minimal RTP packet.
func rtpBytes(ssrc uint32, pt uint8, seq uint16, ts uint32, payloadLen int) []byte {
	h := rtp.Header{Version: 2, SSRC: ssrc, PayloadType: pt, SequenceNumber: seq, Timestamp: ts}
	pl := make([]byte, payloadLen)
	for i := range pl {
		pl[i] = byte(int(seq) + i)
	}
	p := rtp.Packet{Header: h, Payload: pl}
	b, err := p.Marshal()
	if err != nil {
		panic(err)
	}
	return b
}

func streamInfo(ssrc uint32, pt uint8, clock uint32, fb ...string) *interceptor.StreamInfo {
	si := &interceptor.StreamInfo{SSRC: ssrc, PayloadType: pt, ClockRate: clock, MimeType: "video/VP8"}
	for _, f := range fb {
		switch f {
		case "nack":
			si.RTCPFeedback = append(si.RTCPFeedback, interceptor.RTCPFeedback{Type: "nack"})
		case "pli":
			si.RTCPFeedback = append(si.RTCPFeedback, interceptor.RTCPFeedback{Type: "nack", Parameter: "pli"})
		case "twcc":
			si.RTCPFeedback = append(si.RTCPFeedback, interceptor.RTCPFeedback{Type: "transport-cc"})
		case "ccfb":
			si.RTCPFeedback = append(si.RTCPFeedback, interceptor.RTCPFeedback{Type: "ack", Parameter: "ccfb"})
		}
	}
	return si
}

// verTrack counts, per stream, packets whose inner read has completed and
// packets whose outer Read has returned; the difference is "in flight".
type verTrack struct {
	inner, outer int
}
