package props

import (
	"encoding/binary"
	"fmt"
)

// Independent decoder for transport-wide congestion control feedback
// (draft-holmer-rmcat-transport-wide-cc-extensions-01 §3.1), written from the
// draft and not from pion/rtcp.

type twccStatus struct {
	Seq      uint16
	Received bool
	Large    bool  // received with a 16-bit (signed) delta
	DeltaUs  int64 // delta in microseconds (multiples of 250)
	TimeUs   int64 // reference time + sum of deltas, microseconds (not reduced modulo the 24-bit range)
}

type twccDecoded struct {
	Padding     bool
	LengthWords int
	SenderSSRC  uint32
	MediaSSRC   uint32
	Base        uint16
	Count       int
	RefTime     uint32 // 24 bit, multiples of 64 ms
	FbCount     uint8
	Status      []twccStatus // exactly Count entries
	ExtraSyms   int          // symbols in the last chunk beyond Count
	ChunkKinds  []string
}

func decodeTWCC(b []byte) (*twccDecoded, error) {
	if len(b) < 20 {
		return nil, fmt.Errorf("short packet: %d bytes", len(b))
	}
	d := &twccDecoded{}
	if b[0]>>6 != 2 {
		return nil, fmt.Errorf("version %d", b[0]>>6)
	}
	d.Padding = b[0]&0x20 != 0
	if fmtv := b[0] & 0x1f; fmtv != 15 {
		return nil, fmt.Errorf("FMT %d, want 15", fmtv)
	}
	if b[1] != 205 {
		return nil, fmt.Errorf("PT %d, want 205", b[1])
	}
	d.LengthWords = int(binary.BigEndian.Uint16(b[2:]))
	if (d.LengthWords+1)*4 != len(b) {
		return nil, fmt.Errorf("declared length %d words = %d bytes, packet has %d bytes", d.LengthWords, (d.LengthWords+1)*4, len(b))
	}
	d.SenderSSRC = binary.BigEndian.Uint32(b[4:])
	d.MediaSSRC = binary.BigEndian.Uint32(b[8:])
	d.Base = binary.BigEndian.Uint16(b[12:])
	d.Count = int(binary.BigEndian.Uint16(b[14:]))
	d.RefTime = uint32(b[16])<<16 | uint32(b[17])<<8 | uint32(b[18])
	d.FbCount = b[19]
	end := len(b)
	if d.Padding {
		pad := int(b[len(b)-1])
		if pad == 0 || pad > len(b)-20 {
			return nil, fmt.Errorf("padding count %d invalid", pad)
		}
		end -= pad
	}
	off := 20
	type sym struct {
		recv, large bool
	}
	var syms []sym
	for len(syms) < d.Count {
		if off+2 > end {
			return nil, fmt.Errorf("chunks end at byte %d before %d statuses were described (have %d)", off, d.Count, len(syms))
		}
		c := binary.BigEndian.Uint16(b[off:])
		off += 2
		if c&0x8000 == 0 { // run length
			s := (c >> 13) & 3
			run := int(c & 0x1fff)
			if s == 3 {
				return nil, fmt.Errorf("run length chunk with reserved symbol 3")
			}
			d.ChunkKinds = append(d.ChunkKinds, fmt.Sprintf("run(%d x%d)", s, run))
			for i := 0; i < run; i++ {
				syms = append(syms, sym{s != 0, s == 2})
			}
		} else if c&0x4000 == 0 { // one-bit vector, 14 symbols
			d.ChunkKinds = append(d.ChunkKinds, "vec1")
			for i := 13; i >= 0; i-- {
				r := c>>uint(i)&1 == 1
				syms = append(syms, sym{r, false})
			}
		} else { // two-bit vector, 7 symbols
			d.ChunkKinds = append(d.ChunkKinds, "vec2")
			for i := 6; i >= 0; i-- {
				s := c >> uint(2*i) & 3
				if s == 3 {
					return nil, fmt.Errorf("status vector chunk with reserved symbol 3")
				}
				syms = append(syms, sym{s != 0, s == 2})
			}
		}
	}
	d.ExtraSyms = len(syms) - d.Count
	t := int64(d.RefTime) * 64000
	for i := 0; i < d.Count; i++ {
		st := twccStatus{Seq: d.Base + uint16(i), Received: syms[i].recv, Large: syms[i].large}
		if st.Received {
			if st.Large {
				if off+2 > end {
					return nil, fmt.Errorf("fewer deltas than received statuses (status %d)", i)
				}
				st.DeltaUs = int64(int16(binary.BigEndian.Uint16(b[off:]))) * 250
				off += 2
			} else {
				if off+1 > end {
					return nil, fmt.Errorf("fewer deltas than received statuses (status %d)", i)
				}
				st.DeltaUs = int64(b[off]) * 250
				off++
			}
			t += st.DeltaUs
			st.TimeUs = t
		}
		d.Status = append(d.Status, st)
	}
	// symbols beyond Count in the last chunk must not consume deltas
	if off != end {
		if !d.Padding && end-off < 4 {
			// zero padding to a 32-bit boundary without the P bit is tolerated by the draft's examples only with P set
			return nil, fmt.Errorf("%d stray bytes after the last delta without the padding bit", end-off)
		}
		return nil, fmt.Errorf("%d bytes after the last delta are neither deltas nor declared padding", end-off)
	}
	return d, nil
}
