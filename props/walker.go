package props

import (
	"fmt"
	"reflect"
)

// cellWalker counts the "cells" (map entries, slice elements, distinct
// pointed-to nodes) reachable from a value, per field path, so that a structure
// that keeps growing can be named.  It reads unexported fields through
// reflection without ever calling Interface().
type cellWalker struct {
	seen  map[uintptr]bool
	count map[string]int
	total int
	steps int
}

func countCells(root any) *cellWalker {
	w := &cellWalker{seen: map[uintptr]bool{}, count: map[string]int{}}
	w.walk(reflect.ValueOf(root), "", 0)
	w.seen = nil // keep only the counts: the harness itself must hold O(1) state
	return w
}

func (w *cellWalker) add(path string, n int) {
	w.count[path] += n
	w.total += n
}

func (w *cellWalker) walk(v reflect.Value, path string, depth int) {
	w.steps++
	if depth > 40 || w.steps > 5_000_000 || !v.IsValid() {
		return
	}
	sub := func(name string) string {
		if depth < 10 {
			return path + name
		}
		return path
	}
	switch v.Kind() {
	case reflect.Pointer:
		if v.IsNil() {
			return
		}
		p := v.Pointer()
		if w.seen[p] {
			return
		}
		w.seen[p] = true
		w.add(path, 1)
		w.walk(v.Elem(), path, depth+1)
	case reflect.Interface:
		if !v.IsNil() {
			w.walk(v.Elem(), path, depth+1)
		}
	case reflect.Struct:
		t := v.Type()
		for i := 0; i < v.NumField(); i++ {
			w.walk(v.Field(i), sub("."+t.Field(i).Name), depth+1)
		}
	case reflect.Map:
		if v.IsNil() {
			return
		}
		p := v.Pointer()
		if w.seen[p] {
			return
		}
		w.seen[p] = true
		w.add(path, v.Len())
		it := v.MapRange()
		for it.Next() {
			w.walk(it.Key(), sub("[k]"), depth+1)
			w.walk(it.Value(), sub("[v]"), depth+1)
		}
	case reflect.Slice:
		if v.IsNil() {
			return
		}
		p := v.Pointer()
		key := p ^ uintptr(v.Len())<<48
		if w.seen[key] {
			return
		}
		w.seen[key] = true
		w.add(path, v.Len())
		switch v.Type().Elem().Kind() {
		case reflect.Uint8, reflect.Int, reflect.Int64, reflect.Uint64, reflect.Uint16, reflect.Uint32, reflect.Int32, reflect.Float64, reflect.Bool:
			return // flat data
		}
		for i := 0; i < v.Len(); i++ {
			w.walk(v.Index(i), sub("[]"), depth+1)
		}
	case reflect.Array:
		switch v.Type().Elem().Kind() {
		case reflect.Uint8, reflect.Int, reflect.Int64, reflect.Uint64, reflect.Uint16, reflect.Uint32, reflect.Int32, reflect.Float64, reflect.Bool:
			return
		}
		for i := 0; i < v.Len(); i++ {
			w.walk(v.Index(i), path, depth+1)
		}
	case reflect.Chan:
		if !v.IsNil() {
			w.add(path, v.Len())
		}
	}
}

// growingPaths names the paths whose cell count never decreased over the last k
// phases and grew by at least minTotal cells in total over them.
func growingPaths(snaps []*cellWalker, k int, minTotal int) []string {
	if len(snaps) < k+1 {
		return nil
	}
	var out []string
	last := snaps[len(snaps)-1]
	for path := range last.count {
		ok := true
		for i := len(snaps) - k; i < len(snaps); i++ {
			if snaps[i].count[path] < snaps[i-1].count[path] {
				ok = false
				break
			}
		}
		total := last.count[path] - snaps[len(snaps)-1-k].count[path]
		if ok && total >= minTotal {
			out = append(out, fmt.Sprintf("%s (+%d cells over the last %d phases, now %d)", path, total, k, last.count[path]))
		}
	}
	return out
}
