package props

import (
	"bufio"
	"bytes"
	"encoding/json"
	"fmt"
	"os"
	"runtime"
	"strconv"
	"sync/atomic"
	"testing"
	"time"
)

// hangStacks keeps only the running goroutines' stacks (the CPU loop).
func hangStacks(all []byte) []byte {
	var out bytes.Buffer
	for _, blk := range bytes.Split(all, []byte("\n\n")) {
		if bytes.Contains(blk, []byte("[running")) || bytes.Contains(blk, []byte("[runnable")) {
			if bytes.Contains(blk, []byte("pion/interceptor")) {
				out.Write(blk)
				out.WriteString("\n\n")
			}
		}
	}
	return out.Bytes()
}

// Job is what the driver hands to one worker process.
type Job struct {
	Prop     string   `json:"prop"`
	Tier     string   `json:"tier"`
	SeedFrom int64    `json:"seed_from"`
	SeedTo   int64    `json:"seed_to"` // exclusive
	Plans    []*Plan  `json:"plans,omitempty"`
	Trace    bool     `json:"trace,omitempty"`
	Avoid    []string `json:"avoid,omitempty"`
	Out      string   `json:"out"`
	KeepPlan bool     `json:"keep_plan,omitempty"`
	GenOnly  bool     `json:"gen_only,omitempty"` // emit the generated plans without executing them
}

// TestWorker executes the job named by $VERIF_JOB.
func TestWorker(t *testing.T) {
	path := os.Getenv("VERIF_JOB")
	if path == "" {
		t.Skip("no VERIF_JOB")
	}
	raw, err := os.ReadFile(path)
	if err != nil {
		t.Fatal(err)
	}
	var job Job
	if err := json.Unmarshal(raw, &job); err != nil {
		t.Fatal(err)
	}
	f, err := os.Create(job.Out)
	if err != nil {
		t.Fatal(err)
	}
	defer f.Close()
	w := bufio.NewWriter(f)
	defer w.Flush()
	emit := func(o *Outcome) {
		b, _ := json.Marshal(o)
		w.Write(b)
		w.WriteByte('\n')
		w.Flush()
	}
	// real-time watchdog (outside any bubble): a run that does not finish is a
	// CPU loop or a wedge in code the simulator cannot preempt.
	perRun := 20 * time.Second
	if v, err := strconv.Atoi(os.Getenv("VERIF_PERRUN")); err == nil && v > 0 {
		perRun = time.Duration(v) * time.Second
	}
	var curStart atomic.Int64
	var curSeed atomic.Int64
	go func() {
		for {
			time.Sleep(100 * time.Millisecond)
			if st := curStart.Load(); st != 0 && time.Since(time.Unix(0, st)) > perRun {
				fmt.Fprintf(os.Stderr, "@@HANG %d\n", curSeed.Load())
				buf := make([]byte, 1<<16)
				n := runtime.Stack(buf, true)
				os.Stderr.Write(hangStacks(buf[:n]))
				w.Flush()
				os.Exit(3)
			}
		}
	}()
	run := func(p *Plan) {
		fmt.Fprintf(os.Stderr, "@@RUN %s %d START\n", p.Prop, p.Seed)
		curSeed.Store(p.Seed)
		curStart.Store(time.Now().UnixNano())
		o := Execute(t, p, job.Trace)
		curStart.Store(0)
		if job.KeepPlan && o.Plan == nil {
			pc := *p
			o.Plan = &pc
		}
		fmt.Fprintf(os.Stderr, "@@RUN %s %d END\n", p.Prop, p.Seed)
		emit(o)
	}
	if len(job.Plans) > 0 {
		for _, p := range job.Plans {
			run(p)
		}
		return
	}
	prop := registry[job.Prop]
	if prop == nil {
		t.Fatalf("unknown property %q", job.Prop)
	}
	for seed := job.SeedFrom; seed < job.SeedTo; seed++ {
		if job.GenOnly {
			emit(&Outcome{Prop: job.Prop, Seed: seed, Plan: prop.Gen(seed, job.Tier, job.Avoid)})
			continue
		}
		run(prop.Gen(seed, job.Tier, job.Avoid))
	}
}
