package props

import (
	"bufio"
	"bytes"
	"encoding/json"
	"fmt"
	"os"
	"runtime"
	"strconv"
	"strings"
	"sync/atomic"
	"testing"
	"time"
	"verif/simrt"
)

// hangStacks keeps only the running goroutines' stacks (the CPU loop).
func hangStacks(all []byte) []byte {
	var out bytes.Buffer
	for _, blk := range bytes.Split(all, []byte("\n\n")) {
		if bytes.Contains(blk, []byte("[running")) || bytes.Contains(blk, []byte("[runnable")) {
			if bytes.Contains(blk, []byte("pion/interceptor")) {
				out.Write(blk)
				out.WriteString("\n\n")
			}
		}
	}
	return out.Bytes()
}

// Job is what the driver hands to one worker process.
type Job struct {
	Prop     string   `json:"prop"`
	Tier     string   `json:"tier"`
	SeedFrom int64    `json:"seed_from"`
	SeedTo   int64    `json:"seed_to"` // exclusive
	Plans    []*Plan  `json:"plans,omitempty"`
	Trace    bool     `json:"trace,omitempty"`
	Avoid    []string `json:"avoid,omitempty"`
	Out      string   `json:"out"`
	KeepPlan bool     `json:"keep_plan,omitempty"`
	GenOnly  bool     `json:"gen_only,omitempty"` // emit the generated plans without executing them
}

// TestWorker executes the job named by $VERIF_JOB.
func TestWorker(t *testing.T) {
	path := os.Getenv("VERIF_JOB")
	if path == "" {
		t.Skip("no VERIF_JOB")
	}
	raw, err := os.ReadFile(path)
	if err != nil {
		t.Fatal(err)
	}
	var job Job
	if err := json.Unmarshal(raw, &job); err != nil {
		t.Fatal(err)
	}
	f, err := os.Create(job.Out)
	if err != nil {
		t.Fatal(err)
	}
	defer f.Close()
	w := bufio.NewWriter(f)
	defer w.Flush()
	emit := func(o *Outcome) {
		b, _ := json.Marshal(o)
		w.Write(b)
		w.WriteByte('\n')
		w.Flush()
	}
	// real-time watchdog (outside any bubble): a run that does not finish is a
	// CPU loop or a wedge in code the simulator cannot preempt.
	perRun := 20 * time.Second
	if v, err := strconv.Atoi(os.Getenv("VERIF_PERRUN")); err == nil && v > 0 {
		perRun = time.Duration(v) * time.Second
	}
	var curStart atomic.Int64
	var curSeed atomic.Int64
	go func() {
		// progress samples: (time, scheduler steps) every 100 ms
		var lastProgress int64 = -1
		lastChange := time.Now()
		for {
			time.Sleep(100 * time.Millisecond)
			if pnow := simrt.Progress.Load(); pnow != lastProgress {
				lastProgress, lastChange = pnow, time.Now()
			}
			if st := curStart.Load(); st != 0 && time.Since(time.Unix(0, st)) > perRun {
				if time.Since(lastChange) < perRun/2 {
					// the scheduler still takes steps: a slow run (quadratic work between two scheduling
					// points, a loaded machine), not a hang.  The run is abandoned and reported as such.
					fmt.Fprintf(os.Stderr, "@@SLOW %d\n", curSeed.Load())
					w.Flush()
					os.Exit(4)
				}
				fmt.Fprintf(os.Stderr, "@@HANG %d\n", curSeed.Load())
				buf := make([]byte, 1<<16)
				n := runtime.Stack(buf, true)
				os.Stderr.Write(hangStacks(buf[:n]))
				w.Flush()
				os.Exit(3)
			}
		}
	}()
	run := func(p *Plan) {
		fmt.Fprintf(os.Stderr, "@@RUN %s %d START\n", p.Prop, p.Seed)
		curSeed.Store(p.Seed)
		curStart.Store(time.Now().UnixNano())
		var o *Outcome
		if dp, ok := registry[p.Prop].(DualProp); ok && dp.Dual() {
			pa, pb := *p, *p
			pa.Variant, pb.Variant = "A", "B"
			oa := Execute(t, &pa, job.Trace)
			curStart.Store(time.Now().UnixNano())
			o = Execute(t, &pb, job.Trace)
			o.Violations = append(oa.Violations, o.Violations...)
			if oa.Tooling != "" {
				o.Tooling = oa.Tooling
			}
			compareEmissions(oa, o)
			if len(o.Violations) > 0 && o.Plan == nil {
				pc := *p
				o.Plan = &pc
			}
			if o.Plan != nil {
				o.Plan.Variant = ""
			}
			o.Checks += oa.Checks
		} else {
			o = Execute(t, p, job.Trace)
		}
		curStart.Store(0)
		if job.KeepPlan && o.Plan == nil {
			pc := *p
			o.Plan = &pc
		}
		fmt.Fprintf(os.Stderr, "@@RUN %s %d END\n", p.Prop, p.Seed)
		emit(o)
	}
	if len(job.Plans) > 0 {
		for _, p := range job.Plans {
			run(p)
		}
		return
	}
	prop := registry[job.Prop]
	if prop == nil {
		t.Fatalf("unknown property %q", job.Prop)
	}
	for seed := job.SeedFrom; seed < job.SeedTo; seed++ {
		if job.GenOnly {
			emit(&Outcome{Prop: job.Prop, Seed: seed, Plan: prop.Gen(seed, job.Tier, job.Avoid)})
			continue
		}
		run(prop.Gen(seed, job.Tier, job.Avoid))
	}
}

// compareEmissions adds a violation to ob when run B (caller reuses and
// scribbles its buffers) emitted anything different from run A (fresh buffers).
func compareEmissions(oa, ob *Outcome) {
	if oa.Hash == "" || ob.Hash == "" || oa.Truncated || ob.Truncated {
		return
	}
	n := len(oa.Emit)
	if len(ob.Emit) < n {
		n = len(ob.Emit)
	}
	for i := 0; i < n; i++ {
		if oa.Emit[i] != ob.Emit[i] {
			seam := oa.Emit[i]
			if j := strings.IndexByte(seam, ' '); j > 0 {
				seam = seam[:j]
			}
			ob.Violations = append(ob.Violations, Violation{Class: "oracle", Sig: "c13:emission-differs:" + seam,
				Msg: fmt.Sprintf("emission #%d differs between the run with fresh buffers and the run where the caller reuses and overwrites its buffers after each call returned:\n  fresh : %s\n  reused: %s", i, oa.Emit[i], ob.Emit[i])})
			return
		}
	}
	if len(oa.Emit) != len(ob.Emit) {
		ob.Violations = append(ob.Violations, Violation{Class: "oracle", Sig: "c13:emission-count-differs",
			Msg: fmt.Sprintf("%d emissions with fresh buffers, %d with reused buffers", len(oa.Emit), len(ob.Emit))})
	}
}
