package props

import (
	"bufio"
	"encoding/json"
	"fmt"
	"os"
	"testing"
)

// Job is what the driver hands to one worker process.
type Job struct {
	Prop     string   `json:"prop"`
	Tier     string   `json:"tier"`
	SeedFrom int64    `json:"seed_from"`
	SeedTo   int64    `json:"seed_to"` // exclusive
	Plans    []*Plan  `json:"plans,omitempty"`
	Trace    bool     `json:"trace,omitempty"`
	Avoid    []string `json:"avoid,omitempty"`
	Out      string   `json:"out"`
	KeepPlan bool     `json:"keep_plan,omitempty"`
}

// TestWorker executes the job named by $VERIF_JOB.
func TestWorker(t *testing.T) {
	path := os.Getenv("VERIF_JOB")
	if path == "" {
		t.Skip("no VERIF_JOB")
	}
	raw, err := os.ReadFile(path)
	if err != nil {
		t.Fatal(err)
	}
	var job Job
	if err := json.Unmarshal(raw, &job); err != nil {
		t.Fatal(err)
	}
	f, err := os.Create(job.Out)
	if err != nil {
		t.Fatal(err)
	}
	defer f.Close()
	w := bufio.NewWriter(f)
	defer w.Flush()
	emit := func(o *Outcome) {
		b, _ := json.Marshal(o)
		w.Write(b)
		w.WriteByte('\n')
		w.Flush()
	}
	run := func(p *Plan) {
		fmt.Fprintf(os.Stderr, "@@RUN %s %d START\n", p.Prop, p.Seed)
		o := Execute(t, p, job.Trace)
		if job.KeepPlan && o.Plan == nil {
			pc := *p
			o.Plan = &pc
		}
		fmt.Fprintf(os.Stderr, "@@RUN %s %d END\n", p.Prop, p.Seed)
		emit(o)
	}
	if len(job.Plans) > 0 {
		for _, p := range job.Plans {
			run(p)
		}
		return
	}
	prop := registry[job.Prop]
	if prop == nil {
		t.Fatalf("unknown property %q", job.Prop)
	}
	for seed := job.SeedFrom; seed < job.SeedTo; seed++ {
		run(prop.Gen(seed, job.Tier, job.Avoid))
	}
}
