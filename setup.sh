#!/bin/sh
# Builds the driver and the instrumenter from files on disk (offline).
set -e
cd "$(dirname "$0")"
export GOFLAGS=-mod=mod GOPROXY=off GOSUMDB=off GOTOOLCHAIN=local
GO=$(command -v go1.26.8 || echo /opt/veriftools/go1.26.8/bin/go)
mkdir -p bin evidence replays overlay_extra
cp -f /repo/go.sum ./go.sum.repo 2>/dev/null || true
"$GO" build -o bin/instrument ./cmd/instrument
"$GO" build -o bin/check ./cmd/check
# warm the standard-library build cache (plain and -race)
"$GO" build std >/dev/null 2>&1 || true
"$GO" build -race std >/dev/null 2>&1 || true
echo setup ok
