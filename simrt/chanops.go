package simrt

// Send is the rewritten `ch <- v` statement: scheduling point, non-blocking
// attempt, then a native (durably blocking) send bracketed by Block/Resume.
//
//go:norace
func Send[T any](site string, ch chan<- T, v T) {
	if cur() == nil {
		ch <- v
		return
	}
	Yield(site)
	select {
	case ch <- v:
		return
	default:
	}
	g := Block(site)
	ch <- v
	Resume(g)
}

// Recv is the rewritten `<-ch` expression.
//
//go:norace
func Recv[T any](site string, ch <-chan T) T {
	v, _ := Recv2(site, ch)
	return v
}

// Recv2 is the rewritten `v, ok := <-ch`.
//
//go:norace
func Recv2[T any](site string, ch <-chan T) (T, bool) {
	if cur() == nil {
		v, ok := <-ch
		return v, ok
	}
	Yield(site)
	select {
	case v, ok := <-ch:
		return v, ok
	default:
	}
	g := Block(site)
	v, ok := <-ch
	Resume(g)
	return v, ok
}
