package simrt

import (
	"cmp"
	"fmt"
	"slices"
)

// KeyString gives a stable sort key for map keys of the kinds the library uses.
func KeyString(k any) string {
	switch v := k.(type) {
	case uint32:
		return fmt.Sprintf("u%012d", v)
	case uint16:
		return fmt.Sprintf("u%012d", v)
	case uint64:
		return fmt.Sprintf("u%020d", v)
	case int:
		return fmt.Sprintf("i%020d", v+1<<40)
	case string:
		return "s" + v
	}
	return fmt.Sprintf("%T:%v", k, k)
}

// Permute applies a plan-chosen permutation (Fisher-Yates over Aux choices).
//
//go:norace
func Permute(n int, swap func(i, j int)) {
	s := S
	if s == nil || s.dead || s.cfg.NoShuffle || n < 2 {
		return
	}
	s.NMapPerm++
	for i := n - 1; i > 0; i-- {
		j := s.Aux(i + 1)
		if i != j {
			swap(i, j)
		}
	}
}

// Keys returns the keys of m in a deterministic, plan-permuted order; used
// by the rewritten `for k, v := range m` over maps.
//
//go:norace
func Keys[K cmp.Ordered, V any](m map[K]V) []K {
	ks := make([]K, 0, len(m))
	for k := range m {
		ks = append(ks, k)
	}
	slices.Sort(ks)
	Permute(len(ks), func(i, j int) { ks[i], ks[j] = ks[j], ks[i] })
	return ks
}

// KeysAny is Keys for maps whose key type is not ordered.
//
//go:norace
func KeysAny[K comparable, V any](m map[K]V) []K {
	ks := make([]K, 0, len(m))
	for k := range m {
		ks = append(ks, k)
	}
	slices.SortFunc(ks, func(a, b K) int { return cmp.Compare(KeyString(a), KeyString(b)) })
	Permute(len(ks), func(i, j int) { ks[i], ks[j] = ks[j], ks[i] })
	return ks
}

// SelOrder returns the order in which a rewritten select probes its n cases.
//
//go:norace
func SelOrder(n int) []int {
	o := make([]int, n)
	for i := range o {
		o[i] = i
	}
	s := S
	if s == nil || s.dead || s.cur == nil || n < 2 {
		return o
	}
	for i := n - 1; i > 0; i-- {
		j := s.Aux(i + 1)
		o[i], o[j] = o[j], o[i]
	}
	return o
}

// SelMulti counts selects that had more than one ready case (probe reached).
//
//go:norace
func SelMulti() {
	if s := S; s != nil {
		s.NSelMulti++
	}
}

// Zero returns the zero value of a channel's element type.
func Zero[T any](ch <-chan T) (z T) { return }

// ZeroS is Zero for send-only / bidirectional channel expressions.
func ZeroS[T any](ch chan<- T) (z T) { return }

// PoolDrop decides whether a pool Put is dropped.
//
//go:norace
func PoolDrop() bool {
	s := S
	if s == nil || s.dead || s.cur == nil || s.cfg.PoolDrop <= 0 {
		return false
	}
	if s.Aux(1000) < s.cfg.PoolDrop {
		s.NPoolDrop++
		return true
	}
	return false
}

//go:norace
func PoolHit() {
	if s := S; s != nil {
		s.NPoolHit++
	}
}

// SeqStart is the start value of a "random" RTP sequencer (the overlay rewrites
// rtp.NewRandomSequencer() to rtp.NewFixedSequencer(SeqStart())): drawn from the
// run's library PRNG inside a simulation, so that RTX sequence numbers are a
// function of the plan.  Like pion/rtp it uses only the lower half of the range.
//
//go:norace
func SeqStart() uint16 {
	if s := S; s != nil {
		return uint16(s.LibUint64()%(1<<15-2)) + 1
	}
	return 1
}
