//go:build !race

package simrt

import "unsafe"

// RaceEnabled reports whether the binary was built with -race.
const RaceEnabled = false

func raceDisable()                      {}
func raceEnable()                       {}
func RaceReleaseMerge(p unsafe.Pointer) {}
func RaceAcquire(p unsafe.Pointer)      {}
