//go:build race

package simrt

import (
	"runtime"
	"unsafe"
)

// RaceEnabled reports whether the binary was built with -race.
const RaceEnabled = true

func raceDisable()                      { runtime.RaceDisable() }
func raceEnable()                       { runtime.RaceEnable() }
func RaceReleaseMerge(p unsafe.Pointer) { runtime.RaceReleaseMerge(p) }
func RaceAcquire(p unsafe.Pointer)      { runtime.RaceAcquire(p) }
