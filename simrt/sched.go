// Package simrt is the deterministic scheduler that the instrumented copy of
// pion/interceptor and the harness goroutines run under.
//
// Exactly one "sim goroutine" executes program code at any moment.  Every
// synchronisation point (mutex, atomic, channel operation, select, goroutine
// start) is a yield point at which the goroutine parks and the scheduler (the
// root goroutine of a testing/synctest bubble) decides who runs next from the
// plan's choice tape / PRNG.  The bubble supplies the fake clock and
// quiescence detection (synctest.Wait).
//
// All functions here are //go:norace and every hand-off operation is wrapped
// in runtime.RaceDisable/RaceEnable, so that under -race the happens-before
// graph contains only the program's own synchronisation and nothing from the
// scheduler.
package simrt

import (
	"os"
	"fmt"
	"hash/fnv"
	"runtime"
	"runtime/debug"
	"sort"
	"strings"
	"sync/atomic"
	"testing/synctest"
	"time"
	"unsafe"
)

const (
	gRunning int32 = iota
	gParked
	gNative
	gDone
)

// prng is a tiny splitmix64 generator implemented here so that draws made
// from sim goroutines are invisible to the race detector (math/rand's state is
// instrumented library memory).
type prng struct{ x uint64 }

//go:norace
func newPrng(seed int64) *prng { return &prng{uint64(seed)*0x9E3779B97F4A7C15 + 0x1234567} }

//go:norace
func (p *prng) Uint64() uint64 {
	p.x += 0x9E3779B97F4A7C15
	z := p.x
	z = (z ^ (z >> 30)) * 0xBF58476D1CE4E5B9
	z = (z ^ (z >> 27)) * 0x94D049BB133111EB
	return z ^ (z >> 31)
}

//go:norace
func (p *prng) Intn(n int) int {
	if n <= 1 {
		return 0
	}
	return int(p.Uint64() % uint64(n))
}

// Waiter describes what a parked goroutine is waiting for (nil = nothing,
// it is simply runnable).
type Waiter interface {
	Ready() bool
}

// G is one simulated goroutine.
type G struct {
	ID      int
	Site    string // spawn site
	App     bool   // harness goroutine (not spawned by library code)
	Name    string
	release chan struct{}
	state   int32
	wait    Waiter
	where   string
	steps   int
	prio    int
	woke    bool
	doneTok int32
	tok     int32
	// Parent is the ID of the goroutine that spawned this one (0: the root).
	Parent int
	// StartStep / EndStep are the scheduler step counts at spawn and at exit.
	StartStep, EndStep int
	// Local is private storage for harness code running on this goroutine.
	Local any
	// Mark is a scratch word for the harness (set by the scheduler side, e.g. in
	// OnRelease, read by norace harness code on the goroutine: a plain field, not
	// a map, so that race builds see no access).
	Mark int
	// Tag is a second scratch word (a string) under the same rules.
	Tag string
}

func (g *G) String() string { return fmt.Sprintf("g%d(%s)", g.ID, g.Site) }

// PanicRec records a contained panic.
type PanicRec struct {
	G     string
	Site  string
	App   bool
	Value string
	Stack string
}

// Config configures one run.
type Config struct {
	Seed      int64
	Tape      []int // forced choices (replay / minimisation); nil = generate
	Strategy  int   // -1 = choose from seed
	MaxSteps  int
	Limit     time.Duration // simulated-time limit of the run
	Trace     bool          // keep the textual event log
	PoolDrop  int           // per-mille probability that a pool Put is dropped
	NoShuffle bool          // keep sorted order for map/sync.Map iteration
	NoRecord  bool          // do not record the choice tape (long soak runs keep O(1) state)
}

// Sched is the scheduler of one run.
type Sched struct {
	cfg     Config
	cur     *G
	gs      []*G
	wake    chan struct{}
	rng     *prng // schedule choices
	lib     *prng // library math/rand draws
	aux     *prng // pool/map/select choices
	tape    []int
	tapePos int
	nextID  int
	Rec     []int // recorded choices
	Steps   int
	dead    bool
	start   time.Time
	hash    uint64
	Events  []string
	Panics  []PanicRec
	strat   int
	sticky  int
	lastG   *G
	Trunc   bool // step budget exhausted
	Stuck   []string
	// counters
	NSwitch   int
	NSelMulti int
	NPoolDrop int
	NPoolHit  int
	NMapPerm  int
	SiteSet   map[string]int
	// OnRelease is called by the root just before it releases g; woke tells
	// that g returns from a native blocking operation (timer, channel).
	OnRelease func(g *G, woke bool)
}

// S is the active scheduler; nil outside a run (shims then behave natively).
var S *Sched

// Progress counts scheduling steps of all schedulers of the process; a real-time
// watchdog outside the bubble uses it to tell a run that is slow (steps keep
// coming) from one that is stuck in code the simulator cannot preempt.
var Progress atomic.Int64

// StrategyNames lists the schedule-generation strategies.
var StrategyNames = []string{"uniform", "sticky90", "sticky99", "lowest-first+preempt", "pct3"}

// New creates a scheduler; must be called inside the bubble.
//
//go:norace
func New(cfg Config) *Sched {
	if cfg.MaxSteps == 0 {
		cfg.MaxSteps = 200000
	}
	if cfg.Limit == 0 {
		cfg.Limit = time.Hour
	}
	s := &Sched{cfg: cfg, wake: make(chan struct{}, 1), tape: cfg.Tape, start: time.Now(), hash: 14695981039346656037, SiteSet: map[string]int{}}
	s.rng = newPrng(cfg.Seed*7919 + 1)
	s.lib = newPrng(cfg.Seed*104729 + 2)
	s.aux = newPrng(cfg.Seed*1299709 + 3)
	s.strat = cfg.Strategy
	if s.strat < 0 {
		s.strat = s.rng.Intn(len(StrategyNames))
	}
	return s
}

// Strategy returns the name of the schedule generation strategy in use.
func (s *Sched) Strategy() string { return StrategyNames[s.strat%len(StrategyNames)] }

// Now returns simulated time elapsed since the start of the run.
//
//go:norace
func (s *Sched) Now() time.Duration { return time.Since(s.start) }

// Logf appends to the event log (hashed; kept only when tracing).
//
//go:norace
func (s *Sched) Logf(format string, a ...any) {
	line := fmt.Sprintf(format, a...)
	h := fnv.New64a()
	h.Write([]byte(line))
	s.hash = (s.hash ^ h.Sum64()) * 1099511628211
	if s.cfg.Trace {
		s.Events = append(s.Events, fmt.Sprintf("%9.3fms %s", float64(s.Now())/1e6, line))
	}
}

// Log is Logf on the active scheduler (no-op outside a run).
//
//go:norace
func Log(format string, a ...any) {
	if s := S; s != nil {
		s.Logf(format, a...)
	}
}

// Hash returns the event-log hash.
func (s *Sched) Hash() string { return fmt.Sprintf("%016x", s.hash) }

//go:norace
func (s *Sched) newG(site string, app bool) *G {
	s.nextID++
	g := &G{ID: s.nextID, Site: site, App: app, release: make(chan struct{}), state: gParked, where: "start"}
	g.prio = s.rng.Intn(1 << 20)
	g.StartStep = s.Steps
	if s.cur != nil {
		g.Parent = s.cur.ID
	}
	s.gs = append(s.gs, g)
	return g
}

// choose draws the next value in [0,n) from the tape or generator gen.
//
//go:norace
func (s *Sched) choose(n int, gen func() int) int {
	if n <= 1 {
		return 0
	}
	var v int
	if s.tape != nil {
		if s.tapePos < len(s.tape) {
			v = s.tape[s.tapePos] % n
			if v < 0 {
				v = -v
			}
		} else {
			v = 0
		}
		s.tapePos++
	} else {
		v = gen()
	}
	if !s.cfg.NoRecord {
		s.Rec = append(s.Rec, v)
	}
	return v
}

// Aux draws an auxiliary (non-scheduling) choice in [0,n).
//
//go:norace
func (s *Sched) Aux(n int) int {
	v := s.choose(n, func() int { return s.aux.Intn(n) })
	if s.cfg.Trace && os.Getenv("VERIF_TRACE_AUX") != "" {
		s.Logf("aux(%d)=%d", n, v)
	}
	return v
}

//go:norace
func cur() *G {
	s := S
	if s == nil || s.dead {
		return nil
	}
	return s.cur
}

// Cur returns the running sim goroutine, or nil.
//
//go:norace
func Cur() *G { return cur() }

//go:norace
func (s *Sched) park(g *G, site string, w Waiter) {
	g.where = site
	g.wait = w
	RaceReleaseMerge(unsafe.Pointer(&g.tok))
	atomic.StoreInt32(&g.state, gParked)
	raceDisable()
	select {
	case s.wake <- struct{}{}:
	default:
	}
	<-g.release
	raceEnable()
	if s.dead {
		runtime.Goexit()
	}
}

// Yield is a scheduling point.
//
//go:norace
func Yield(site string) {
	if g := cur(); g != nil {
		S.park(g, site, nil)
	}
}

// YieldWait parks until w.Ready() (evaluated by the scheduler) and the
// scheduler picks this goroutine.
//
//go:norace
func YieldWait(site string, w Waiter) {
	if g := cur(); g != nil {
		S.park(g, site, w)
	}
}

// Block announces that the running goroutine is about to perform a natively
// blocking operation (channel op, select, timer wait, WaitGroup.Wait).  The
// returned handle must be passed to Resume right after the operation.
//
//go:norace
func Block(site string) *G {
	g := cur()
	if g == nil {
		return nil
	}
	g.where = site
	S.cur = nil
	RaceReleaseMerge(unsafe.Pointer(&g.tok))
	atomic.StoreInt32(&g.state, gNative)
	return g
}

// Resume parks the goroutine after a native blocking operation completed.
//
//go:norace
func Resume(g *G) {
	if g == nil {
		return
	}
	s := S
	if s == nil {
		return
	}
	if s.dead {
		return
	}
	g.woke = true
	s.park(g, g.where, nil)
}

// Go starts f as a sim goroutine (rewritten `go` statements land here).
//
//go:norace
func Go(site string, f func()) {
	s := S
	if s == nil || s.dead || s.cur == nil {
		go f()
		return
	}
	s.spawn(site, false, f)
}

//go:norace
func (s *Sched) spawn(site string, app bool, f func(), pre ...func(*G)) *G {
	g := s.newG(site, app)
	for _, p := range pre {
		p(g)
	}
	go func() {
		raceDisable()
		<-g.release
		raceEnable()
		if s.dead {
			atomic.StoreInt32(&g.state, gDone)
			return
		}
		defer s.exit(g)
		f()
	}()
	return g
}

//go:norace
func (s *Sched) exit(g *G) {
	if r := recover(); r != nil {
		if S == s {
			s.Panics = append(s.Panics, PanicRec{G: g.String(), Site: g.Site, App: g.App, Value: fmt.Sprint(r), Stack: trimStack(string(debug.Stack()))})
		}
	}
	if S == s && s.cur == g {
		s.cur = nil
	}
	g.EndStep = s.Steps
	RaceReleaseMerge(unsafe.Pointer(&g.doneTok))
	RaceReleaseMerge(unsafe.Pointer(&g.tok))
	atomic.StoreInt32(&g.state, gDone)
}

func trimStack(st string) string {
	lines := strings.Split(st, "\n")
	var out []string
	for _, l := range lines {
		if strings.Contains(l, "runtime/debug") || strings.Contains(l, "simrt.(*Sched).exit") {
			continue
		}
		out = append(out, l)
		if len(out) > 40 {
			break
		}
	}
	return strings.Join(out, "\n")
}

// GoApp starts a harness goroutine; callable from the root before/while running
// and from sim goroutines.
//
//go:norace
func (s *Sched) GoApp(name string, f func(), pre ...func(*G)) *G {
	pre = append(pre, func(g *G) { g.Name = name })
	return s.spawn("app:"+name, true, f, pre...)
}

// Sleep blocks the calling sim goroutine for d of simulated time.
//
//go:norace
func Sleep(d time.Duration) {
	if d <= 0 {
		Yield("sleep0")
		return
	}
	g := Block("sleep")
	time.Sleep(d)
	Resume(g)
}

// SleepUntil sleeps until simulated time t (since run start).
//
//go:norace
func SleepUntil(t time.Duration) {
	s := S
	if s == nil {
		return
	}
	Sleep(t - s.Now())
}

// Result of Run.
type Result struct {
	AppLeft   []string // app goroutines not finished at the end
	LibLive   []string // library goroutines still alive at the end
	Deadlock  bool
	TimedOut  bool
	Truncated bool
}

//go:norace
func (s *Sched) enabled() []*G {
	var e []*G
	for _, g := range s.gs {
		if atomic.LoadInt32(&g.state) == gParked && (g.wait == nil || g.wait.Ready()) {
			e = append(e, g)
		}
	}
	return e
}

//go:norace
func (s *Sched) pick(e []*G) *G {
	n := len(e)
	idx := s.choose(n, func() int {
		switch s.strat % len(StrategyNames) {
		case 0:
			return s.rng.Intn(n)
		case 1, 2:
			p := 10
			if s.strat%len(StrategyNames) == 2 {
				p = 100
			}
			if s.lastG != nil && s.rng.Intn(p) != 0 {
				for i, g := range e {
					if g == s.lastG {
						return i
					}
				}
			}
			return s.rng.Intn(n)
		case 3:
			// lowest id first, with rare random preemptions
			if s.rng.Intn(50) == 0 {
				return s.rng.Intn(n)
			}
			if s.lastG != nil {
				for i, g := range e {
					if g == s.lastG {
						return i
					}
				}
			}
			return 0
		default:
			// PCT-like: highest priority runs; priorities change at rare points
			if s.rng.Intn(40) == 0 && s.lastG != nil {
				s.lastG.prio = -s.Steps
			}
			best := 0
			for i, g := range e {
				if g.prio > e[best].prio {
					best = i
				}
			}
			return best
		}
	})
	return e[idx]
}

// Run schedules until done() reports true at a quiescent point, the simulated
// time limit passes, or the step budget is exhausted.  Must be called from the
// bubble's root goroutine with S == s.
//
//go:norace
func (s *Sched) Run(done func() bool) Result {
	var res Result
	sentinel := time.NewTimer(s.cfg.Limit - s.Now())
	defer sentinel.Stop()
	for {
		synctest.Wait()
		if c := s.cur; c != nil && atomic.LoadInt32(&c.state) == gRunning {
			// the released goroutine blocked somewhere the simulator does not know
			s.Stuck = append(s.Stuck, fmt.Sprintf("%s blocked natively after %s", c, c.where))
			s.cur = nil
			atomic.StoreInt32(&c.state, gNative)
		}
		if len(s.Panics) > 0 {
			return res
		}
		if done != nil && done() {
			return res
		}
		if s.cfg.NoRecord && s.Steps%4096 == 0 {
			// soak runs: forget finished goroutines so that the scheduler itself keeps O(live) state
			live := s.gs[:0]
			for _, g := range s.gs {
				if atomic.LoadInt32(&g.state) != gDone {
					live = append(live, g)
				}
			}
			for i := len(live); i < len(s.gs); i++ {
				s.gs[i] = nil
			}
			s.gs = live
			if s.lastG != nil && atomic.LoadInt32(&s.lastG.state) == gDone {
				s.lastG = nil
			}
		}
		if s.Steps >= s.cfg.MaxSteps {
			s.Trunc = true
			res.Truncated = true
			return res
		}
		e := s.enabled()
		if len(e) == 0 {
			raceDisable()
			select {
			case <-s.wake:
				raceEnable()
				continue
			default:
			}
			select {
			case <-s.wake:
				raceEnable()
				continue
			case <-sentinel.C:
				raceEnable()
				res.TimedOut = true
				return res
			}
		}
		g := s.pick(e)
		if g != s.lastG {
			s.NSwitch++
		}
		s.lastG = g
		s.Steps++
		Progress.Add(1)
		g.steps++
		s.SiteSet[g.where]++
		s.Logf("step g%d %s", g.ID, g.where)
		g.wait = nil
		if s.OnRelease != nil {
			s.OnRelease(g, g.woke)
		}
		g.woke = false
		s.cur = g
		atomic.StoreInt32(&g.state, gRunning)
		raceDisable()
		select {
		case <-s.wake:
		default:
		}
		g.release <- struct{}{}
		raceEnable()
	}
}

// AllDone reports whether the given goroutines have all finished.
//
//go:norace
func AllDone(gs ...*G) bool {
	for _, g := range gs {
		if atomic.LoadInt32(&g.state) != gDone {
			return false
		}
	}
	return true
}

// Done reports whether g finished.
//
//go:norace
func (g *G) Done() bool { return atomic.LoadInt32(&g.state) == gDone }

// Where returns g's last known location.
//
//go:norace
func (g *G) Where() string { return g.where }

// Live returns the live goroutines (not done), split by kind.
//
//go:norace
func (s *Sched) Live() (app, lib []*G) {
	for _, g := range s.gs {
		if atomic.LoadInt32(&g.state) != gDone {
			if g.App {
				app = append(app, g)
			} else {
				lib = append(lib, g)
			}
		}
	}
	return
}

// NumG returns how many goroutines were created.
func (s *Sched) NumG() int { return s.nextID }

// Describe lists live goroutines with their locations.
//
//go:norace
func (s *Sched) Describe() []string {
	var out []string
	for _, g := range s.gs {
		st := atomic.LoadInt32(&g.state)
		if st == gDone {
			continue
		}
		out = append(out, fmt.Sprintf("%s state=%s at %s", g, [...]string{"running", "parked", "native", "done"}[st], g.where))
	}
	sort.Strings(out)
	return out
}

// Kill ends the run: every parked goroutine is released and exits
// (runtime.Goexit); natively blocked ones stay blocked and are abandoned with
// the bubble.  After Kill the shims behave natively.
//
//go:norace
func (s *Sched) Kill() {
	s.dead = true
	s.cur = nil
	synctest.Wait()
	for _, g := range s.gs {
		if atomic.LoadInt32(&g.state) == gParked {
			atomic.StoreInt32(&g.state, gDone)
			raceDisable()
			select {
			case g.release <- struct{}{}:
			default:
			}
			raceEnable()
			synctest.Wait()
		}
	}
}

// LibUint64 draws from the PRNG behind the math/rand shim.
//
//go:norace
func (s *Sched) LibUint64() uint64 { return s.lib.Uint64() }

// Joined gives the caller a happens-before edge from the end of each finished
// goroutine (what a WaitGroup.Wait would give); harness joins only.
//
//go:norace
func Joined(gs ...*G) {
	for _, g := range gs {
		RaceAcquire(unsafe.Pointer(&g.doneTok))
	}
}

// AcquireAll gives the root a happens-before edge from everything the sim
// goroutines did up to their last park (inbound edges only: the root never
// releases to them, so this hides nothing).
//
//go:norace
func (s *Sched) AcquireAll() {
	for _, g := range s.gs {
		RaceAcquire(unsafe.Pointer(&g.tok))
	}
}

// Gs returns all goroutines created so far (read-only use).
//
//go:norace
func (s *Sched) Gs() []*G { return s.gs }

// Step returns the current scheduler step count (a logical clock).
//
//go:norace
func (s *Sched) Step() int { return s.Steps }
