// Package simatomic replaces "sync/atomic": same operations, each preceded
// by a scheduling point.
package simatomic

import (
	"sync/atomic"
	"unsafe"

	"verif/simrt"
)

// Typed atomics: wrappers (not aliases) so that every method is preceded by a
// scheduling point as well.  The zero value is ready to use, as in sync/atomic.

type Bool struct{ v atomic.Bool }

func (x *Bool) Load() bool                        { y(); return x.v.Load() }
func (x *Bool) Store(val bool)                    { y(); x.v.Store(val) }
func (x *Bool) Swap(new bool) bool                { y(); return x.v.Swap(new) }
func (x *Bool) CompareAndSwap(old, new bool) bool { y(); return x.v.CompareAndSwap(old, new) }

type Int32 struct{ v atomic.Int32 }

func (x *Int32) Load() int32                        { y(); return x.v.Load() }
func (x *Int32) Store(val int32)                    { y(); x.v.Store(val) }
func (x *Int32) Swap(new int32) int32               { y(); return x.v.Swap(new) }
func (x *Int32) CompareAndSwap(old, new int32) bool { y(); return x.v.CompareAndSwap(old, new) }
func (x *Int32) Add(d int32) int32                  { y(); return x.v.Add(d) }
func (x *Int32) And(m int32) int32                  { y(); return x.v.And(m) }
func (x *Int32) Or(m int32) int32                   { y(); return x.v.Or(m) }

type Int64 struct{ v atomic.Int64 }

func (x *Int64) Load() int64                        { y(); return x.v.Load() }
func (x *Int64) Store(val int64)                    { y(); x.v.Store(val) }
func (x *Int64) Swap(new int64) int64               { y(); return x.v.Swap(new) }
func (x *Int64) CompareAndSwap(old, new int64) bool { y(); return x.v.CompareAndSwap(old, new) }
func (x *Int64) Add(d int64) int64                  { y(); return x.v.Add(d) }
func (x *Int64) And(m int64) int64                  { y(); return x.v.And(m) }
func (x *Int64) Or(m int64) int64                   { y(); return x.v.Or(m) }

type Uint32 struct{ v atomic.Uint32 }

func (x *Uint32) Load() uint32                        { y(); return x.v.Load() }
func (x *Uint32) Store(val uint32)                    { y(); x.v.Store(val) }
func (x *Uint32) Swap(new uint32) uint32              { y(); return x.v.Swap(new) }
func (x *Uint32) CompareAndSwap(old, new uint32) bool { y(); return x.v.CompareAndSwap(old, new) }
func (x *Uint32) Add(d uint32) uint32                 { y(); return x.v.Add(d) }
func (x *Uint32) And(m uint32) uint32                 { y(); return x.v.And(m) }
func (x *Uint32) Or(m uint32) uint32                  { y(); return x.v.Or(m) }

type Uint64 struct{ v atomic.Uint64 }

func (x *Uint64) Load() uint64                        { y(); return x.v.Load() }
func (x *Uint64) Store(val uint64)                    { y(); x.v.Store(val) }
func (x *Uint64) Swap(new uint64) uint64              { y(); return x.v.Swap(new) }
func (x *Uint64) CompareAndSwap(old, new uint64) bool { y(); return x.v.CompareAndSwap(old, new) }
func (x *Uint64) Add(d uint64) uint64                 { y(); return x.v.Add(d) }
func (x *Uint64) And(m uint64) uint64                 { y(); return x.v.And(m) }
func (x *Uint64) Or(m uint64) uint64                  { y(); return x.v.Or(m) }

type Uintptr struct{ v atomic.Uintptr }

func (x *Uintptr) Load() uintptr                        { y(); return x.v.Load() }
func (x *Uintptr) Store(val uintptr)                    { y(); x.v.Store(val) }
func (x *Uintptr) Swap(new uintptr) uintptr             { y(); return x.v.Swap(new) }
func (x *Uintptr) CompareAndSwap(old, new uintptr) bool { y(); return x.v.CompareAndSwap(old, new) }
func (x *Uintptr) Add(d uintptr) uintptr                { y(); return x.v.Add(d) }

type Value struct{ v atomic.Value }

func (x *Value) Load() any                        { y(); return x.v.Load() }
func (x *Value) Store(val any)                    { y(); x.v.Store(val) }
func (x *Value) Swap(new any) any                 { y(); return x.v.Swap(new) }
func (x *Value) CompareAndSwap(old, new any) bool { y(); return x.v.CompareAndSwap(old, new) }

type Pointer[T any] struct{ v atomic.Pointer[T] }

func (x *Pointer[T]) Load() *T                        { y(); return x.v.Load() }
func (x *Pointer[T]) Store(val *T)                    { y(); x.v.Store(val) }
func (x *Pointer[T]) Swap(new *T) *T                  { y(); return x.v.Swap(new) }
func (x *Pointer[T]) CompareAndSwap(old, new *T) bool { y(); return x.v.CompareAndSwap(old, new) }

func y() { simrt.Yield("atomic") }

func AddInt32(addr *int32, delta int32) int32             { y(); return atomic.AddInt32(addr, delta) }
func AddInt64(addr *int64, delta int64) int64             { y(); return atomic.AddInt64(addr, delta) }
func AddUint32(addr *uint32, delta uint32) uint32         { y(); return atomic.AddUint32(addr, delta) }
func AddUint64(addr *uint64, delta uint64) uint64         { y(); return atomic.AddUint64(addr, delta) }
func AddUintptr(addr *uintptr, d uintptr) uintptr         { y(); return atomic.AddUintptr(addr, d) }
func LoadInt32(addr *int32) int32                         { y(); return atomic.LoadInt32(addr) }
func LoadInt64(addr *int64) int64                         { y(); return atomic.LoadInt64(addr) }
func LoadUint32(addr *uint32) uint32                      { y(); return atomic.LoadUint32(addr) }
func LoadUint64(addr *uint64) uint64                      { y(); return atomic.LoadUint64(addr) }
func LoadUintptr(addr *uintptr) uintptr                   { y(); return atomic.LoadUintptr(addr) }
func LoadPointer(addr *unsafe.Pointer) unsafe.Pointer     { y(); return atomic.LoadPointer(addr) }
func StoreInt32(addr *int32, v int32)                     { y(); atomic.StoreInt32(addr, v) }
func StoreInt64(addr *int64, v int64)                     { y(); atomic.StoreInt64(addr, v) }
func StoreUint32(addr *uint32, v uint32)                  { y(); atomic.StoreUint32(addr, v) }
func StoreUint64(addr *uint64, v uint64)                  { y(); atomic.StoreUint64(addr, v) }
func StoreUintptr(addr *uintptr, v uintptr)               { y(); atomic.StoreUintptr(addr, v) }
func StorePointer(addr *unsafe.Pointer, v unsafe.Pointer) { y(); atomic.StorePointer(addr, v) }
func SwapInt32(addr *int32, v int32) int32                { y(); return atomic.SwapInt32(addr, v) }
func SwapInt64(addr *int64, v int64) int64                { y(); return atomic.SwapInt64(addr, v) }
func SwapUint32(addr *uint32, v uint32) uint32            { y(); return atomic.SwapUint32(addr, v) }
func SwapUint64(addr *uint64, v uint64) uint64            { y(); return atomic.SwapUint64(addr, v) }
func CompareAndSwapInt32(addr *int32, o, n int32) bool {
	y()
	return atomic.CompareAndSwapInt32(addr, o, n)
}
func CompareAndSwapInt64(addr *int64, o, n int64) bool {
	y()
	return atomic.CompareAndSwapInt64(addr, o, n)
}
func CompareAndSwapUint32(addr *uint32, o, n uint32) bool {
	y()
	return atomic.CompareAndSwapUint32(addr, o, n)
}
func CompareAndSwapUint64(addr *uint64, o, n uint64) bool {
	y()
	return atomic.CompareAndSwapUint64(addr, o, n)
}
func AndInt32(addr *int32, m int32) int32     { y(); return atomic.AndInt32(addr, m) }
func AndUint32(addr *uint32, m uint32) uint32 { y(); return atomic.AndUint32(addr, m) }
func OrInt32(addr *int32, m int32) int32      { y(); return atomic.OrInt32(addr, m) }
func OrUint32(addr *uint32, m uint32) uint32  { y(); return atomic.OrUint32(addr, m) }
