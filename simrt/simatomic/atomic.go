// Package simatomic replaces "sync/atomic": same operations, each preceded
// by a scheduling point.
package simatomic

import (
	"sync/atomic"
	"unsafe"

	"verif/simrt"
)

type (
	Bool    = atomic.Bool
	Int32   = atomic.Int32
	Int64   = atomic.Int64
	Uint32  = atomic.Uint32
	Uint64  = atomic.Uint64
	Uintptr = atomic.Uintptr
	Value   = atomic.Value
)

type Pointer[T any] = atomic.Pointer[T]

func y() { simrt.Yield("atomic") }

func AddInt32(addr *int32, delta int32) int32             { y(); return atomic.AddInt32(addr, delta) }
func AddInt64(addr *int64, delta int64) int64             { y(); return atomic.AddInt64(addr, delta) }
func AddUint32(addr *uint32, delta uint32) uint32         { y(); return atomic.AddUint32(addr, delta) }
func AddUint64(addr *uint64, delta uint64) uint64         { y(); return atomic.AddUint64(addr, delta) }
func AddUintptr(addr *uintptr, d uintptr) uintptr         { y(); return atomic.AddUintptr(addr, d) }
func LoadInt32(addr *int32) int32                         { y(); return atomic.LoadInt32(addr) }
func LoadInt64(addr *int64) int64                         { y(); return atomic.LoadInt64(addr) }
func LoadUint32(addr *uint32) uint32                      { y(); return atomic.LoadUint32(addr) }
func LoadUint64(addr *uint64) uint64                      { y(); return atomic.LoadUint64(addr) }
func LoadUintptr(addr *uintptr) uintptr                   { y(); return atomic.LoadUintptr(addr) }
func LoadPointer(addr *unsafe.Pointer) unsafe.Pointer     { y(); return atomic.LoadPointer(addr) }
func StoreInt32(addr *int32, v int32)                     { y(); atomic.StoreInt32(addr, v) }
func StoreInt64(addr *int64, v int64)                     { y(); atomic.StoreInt64(addr, v) }
func StoreUint32(addr *uint32, v uint32)                  { y(); atomic.StoreUint32(addr, v) }
func StoreUint64(addr *uint64, v uint64)                  { y(); atomic.StoreUint64(addr, v) }
func StoreUintptr(addr *uintptr, v uintptr)               { y(); atomic.StoreUintptr(addr, v) }
func StorePointer(addr *unsafe.Pointer, v unsafe.Pointer) { y(); atomic.StorePointer(addr, v) }
func SwapInt32(addr *int32, v int32) int32                { y(); return atomic.SwapInt32(addr, v) }
func SwapInt64(addr *int64, v int64) int64                { y(); return atomic.SwapInt64(addr, v) }
func SwapUint32(addr *uint32, v uint32) uint32            { y(); return atomic.SwapUint32(addr, v) }
func SwapUint64(addr *uint64, v uint64) uint64            { y(); return atomic.SwapUint64(addr, v) }
func CompareAndSwapInt32(addr *int32, o, n int32) bool {
	y()
	return atomic.CompareAndSwapInt32(addr, o, n)
}
func CompareAndSwapInt64(addr *int64, o, n int64) bool {
	y()
	return atomic.CompareAndSwapInt64(addr, o, n)
}
func CompareAndSwapUint32(addr *uint32, o, n uint32) bool {
	y()
	return atomic.CompareAndSwapUint32(addr, o, n)
}
func CompareAndSwapUint64(addr *uint64, o, n uint64) bool {
	y()
	return atomic.CompareAndSwapUint64(addr, o, n)
}
func AndInt32(addr *int32, m int32) int32     { y(); return atomic.AndInt32(addr, m) }
func AndUint32(addr *uint32, m uint32) uint32 { y(); return atomic.AndUint32(addr, m) }
func OrInt32(addr *int32, m int32) int32      { y(); return atomic.OrInt32(addr, m) }
func OrUint32(addr *uint32, m uint32) uint32  { y(); return atomic.OrUint32(addr, m) }
