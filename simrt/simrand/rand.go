// Package simrand replaces "math/rand": top-level functions draw from the
// run's library PRNG so that SSRCs etc. are a function of the seed.
package simrand

import (
	"math"
	"math/rand"
	"sync"

	"verif/simrt"
)

type (
	Rand     = rand.Rand
	Source   = rand.Source
	Source64 = rand.Source64
	Zipf     = rand.Zipf
)

func New(src Source) *Rand                             { return rand.New(src) }
func NewSource(seed int64) Source                      { return rand.NewSource(seed) }
func NewZipf(r *Rand, s, v float64, imax uint64) *Zipf { return rand.NewZipf(r, s, v, imax) }

var (
	mu       sync.Mutex
	fallback = rand.New(rand.NewSource(1))
)

// u64 draws 64 bits: from the run's library PRNG inside a simulation,
// otherwise from a locked fallback generator.
//
//go:norace
func u64() uint64 {
	if s := simrt.S; s != nil && simrt.Cur() != nil {
		return s.LibUint64()
	}
	mu.Lock()
	defer mu.Unlock()
	return fallback.Uint64()
}

func Seed(seed int64) {}
func Uint64() uint64  { return u64() }
func Uint32() uint32  { return uint32(u64() >> 32) }
func Int63() int64    { return int64(u64() >> 1) }
func Int31() int32    { return int32(u64() >> 33) }
func Int() int        { return int(uint(Int63())) }
func Int63n(n int64) int64 {
	if n <= 0 {
		panic("invalid argument to Int63n")
	}
	return int64(u64() % uint64(n))
}
func Int31n(n int32) int32 {
	if n <= 0 {
		panic("invalid argument to Int31n")
	}
	return int32(u64() % uint64(n))
}
func Intn(n int) int {
	if n <= 0 {
		panic("invalid argument to Intn")
	}
	return int(u64() % uint64(n))
}
func Float64() float64 { return float64(u64()>>11) / (1 << 53) }
func Float32() float32 { return float32(u64()>>40) / (1 << 24) }
func NormFloat64() float64 {
	// sum of 12 uniforms (adequate for the library's non-cryptographic uses)
	x := 0.0
	for i := 0; i < 12; i++ {
		x += Float64()
	}
	return x - 6
}
func ExpFloat64() float64 { return -math.Log(1 - Float64()) }
func Perm(n int) []int {
	m := make([]int, n)
	for i := range m {
		j := Intn(i + 1)
		m[i] = m[j]
		m[j] = i
	}
	return m
}
func Shuffle(n int, swap func(i, j int)) {
	for i := n - 1; i > 0; i-- {
		swap(i, Intn(i+1))
	}
}
func Read(p []byte) (int, error) {
	for i := range p {
		p[i] = byte(u64())
	}
	return len(p), nil
}
