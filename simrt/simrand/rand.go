// Package simrand replaces "math/rand": top-level functions draw from the
// run's library PRNG so that SSRCs etc. are a function of the seed.
package simrand

import (
	"math/rand"
	"sync"

	"verif/simrt"
)

type (
	Rand     = rand.Rand
	Source   = rand.Source
	Source64 = rand.Source64
	Zipf     = rand.Zipf
)

func New(src Source) *Rand                             { return rand.New(src) }
func NewSource(seed int64) Source                      { return rand.NewSource(seed) }
func NewZipf(r *Rand, s, v float64, imax uint64) *Zipf { return rand.NewZipf(r, s, v, imax) }

var (
	mu       sync.Mutex
	fallback = rand.New(rand.NewSource(1))
)

//go:norace
func r() (*rand.Rand, func()) {
	if s := simrt.S; s != nil && simrt.Cur() != nil {
		return s.LibRand(), func() {}
	}
	mu.Lock()
	return fallback, mu.Unlock
}

func Seed(seed int64)                    {}
func Int() int                           { g, u := r(); defer u(); return g.Int() }
func Intn(n int) int                     { g, u := r(); defer u(); return g.Intn(n) }
func Int31() int32                       { g, u := r(); defer u(); return g.Int31() }
func Int31n(n int32) int32               { g, u := r(); defer u(); return g.Int31n(n) }
func Int63() int64                       { g, u := r(); defer u(); return g.Int63() }
func Int63n(n int64) int64               { g, u := r(); defer u(); return g.Int63n(n) }
func Uint32() uint32                     { g, u := r(); defer u(); return g.Uint32() }
func Uint64() uint64                     { g, u := r(); defer u(); return g.Uint64() }
func Float32() float32                   { g, u := r(); defer u(); return g.Float32() }
func Float64() float64                   { g, u := r(); defer u(); return g.Float64() }
func NormFloat64() float64               { g, u := r(); defer u(); return g.NormFloat64() }
func ExpFloat64() float64                { g, u := r(); defer u(); return g.ExpFloat64() }
func Perm(n int) []int                   { g, u := r(); defer u(); return g.Perm(n) }
func Shuffle(n int, swap func(i, j int)) { g, u := r(); defer u(); g.Shuffle(n, swap) }
func Read(p []byte) (int, error)         { g, u := r(); defer u(); return g.Read(p) }
