// Package simsync replaces "sync" in the instrumented copy of the library.
// Outside a simulation run every type behaves like its sync counterpart.
package simsync

import (
	"fmt"
	"sort"
	"sync"
	"unsafe"

	"verif/simrt"
)

type (
	Locker = sync.Locker
	Once   = sync.Once
	Cond   = sync.Cond
)

func NewCond(l Locker) *Cond { return sync.NewCond(l) }

func OnceFunc(f func()) func()                                 { return sync.OnceFunc(f) }
func OnceValue[T any](f func() T) func() T                     { return sync.OnceValue(f) }
func OnceValues[T1, T2 any](f func() (T1, T2)) func() (T1, T2) { return sync.OnceValues(f) }

// Mutex is a TryLock-and-park mutex: it never blocks the OS thread, so a
// parked goroutine may hold it and quiescence detection keeps working.  The
// embedded real mutex supplies the race detector's acquire/release edges.
type Mutex struct {
	mu   sync.Mutex
	held int32
}

type muWait struct{ m *Mutex }

//go:norace
func (w muWait) Ready() bool { return w.m.held == 0 }

//go:norace
func (m *Mutex) Lock() {
	if simrt.Cur() == nil {
		m.mu.Lock()
		m.held = 1
		return
	}
	simrt.Yield("Mutex.Lock")
	for !m.mu.TryLock() {
		simrt.YieldWait("Mutex.Lock(wait)", muWait{m})
	}
	m.held = 1
}

//go:norace
func (m *Mutex) TryLock() bool {
	simrt.Yield("Mutex.TryLock")
	if m.mu.TryLock() {
		m.held = 1
		return true
	}
	return false
}

//go:norace
func (m *Mutex) Unlock() {
	m.held = 0
	m.mu.Unlock()
}

// RWMutex: same idea with reader counting.
type RWMutex struct {
	mu      sync.RWMutex
	writer  int32
	readers int32
}

type rwWaitW struct{ m *RWMutex }
type rwWaitR struct{ m *RWMutex }

//go:norace
func (w rwWaitW) Ready() bool { return w.m.writer == 0 && w.m.readers == 0 }

//go:norace
func (w rwWaitR) Ready() bool { return w.m.writer == 0 }

//go:norace
func (m *RWMutex) Lock() {
	if simrt.Cur() == nil {
		m.mu.Lock()
		m.writer = 1
		return
	}
	simrt.Yield("RWMutex.Lock")
	for !m.mu.TryLock() {
		simrt.YieldWait("RWMutex.Lock(wait)", rwWaitW{m})
	}
	m.writer = 1
}

//go:norace
func (m *RWMutex) TryLock() bool {
	simrt.Yield("RWMutex.TryLock")
	if m.mu.TryLock() {
		m.writer = 1
		return true
	}
	return false
}

//go:norace
func (m *RWMutex) Unlock() {
	m.writer = 0
	m.mu.Unlock()
}

//go:norace
func (m *RWMutex) RLock() {
	if simrt.Cur() == nil {
		m.mu.RLock()
		m.readers++
		return
	}
	simrt.Yield("RWMutex.RLock")
	for !m.mu.TryRLock() {
		simrt.YieldWait("RWMutex.RLock(wait)", rwWaitR{m})
	}
	m.readers++
}

//go:norace
func (m *RWMutex) TryRLock() bool {
	simrt.Yield("RWMutex.TryRLock")
	if m.mu.TryRLock() {
		m.readers++
		return true
	}
	return false
}

//go:norace
func (m *RWMutex) RUnlock() {
	m.readers--
	m.mu.RUnlock()
}

func (m *RWMutex) RLocker() Locker { return (*rlocker)(m) }

type rlocker RWMutex

func (r *rlocker) Lock()   { (*RWMutex)(r).RLock() }
func (r *rlocker) Unlock() { (*RWMutex)(r).RUnlock() }

// WaitGroup wraps the real one; Wait is a native (durably) blocking point.
type WaitGroup struct {
	wg sync.WaitGroup
}

func (w *WaitGroup) Add(n int) { w.wg.Add(n) }
func (w *WaitGroup) Done()     { w.wg.Done() }

//go:norace
func (w *WaitGroup) Wait() {
	simrt.Yield("WaitGroup.Wait")
	g := simrt.Block("WaitGroup.Wait(blocked)")
	w.wg.Wait()
	simrt.Resume(g)
}

func (w *WaitGroup) Go(f func()) {
	w.wg.Add(1)
	simrt.Go("WaitGroup.Go", func() {
		defer w.wg.Done()
		f()
	})
}

// Map wraps sync.Map; Range iterates in a deterministic, plan-permuted order.
type Map struct {
	m sync.Map
}

func (m *Map) Load(key any) (any, bool) { simrt.Yield("Map.Load"); return m.m.Load(key) }
func (m *Map) Store(key, value any)     { simrt.Yield("Map.Store"); m.m.Store(key, value) }
func (m *Map) Delete(key any)           { simrt.Yield("Map.Delete"); m.m.Delete(key) }
func (m *Map) Clear()                   { simrt.Yield("Map.Clear"); m.m.Clear() }
func (m *Map) LoadOrStore(key, value any) (any, bool) {
	simrt.Yield("Map.LoadOrStore")
	return m.m.LoadOrStore(key, value)
}
func (m *Map) LoadAndDelete(key any) (any, bool) {
	simrt.Yield("Map.LoadAndDelete")
	return m.m.LoadAndDelete(key)
}
func (m *Map) Swap(key, value any) (any, bool) { simrt.Yield("Map.Swap"); return m.m.Swap(key, value) }
func (m *Map) CompareAndSwap(key, old, new any) bool {
	simrt.Yield("Map.CompareAndSwap")
	return m.m.CompareAndSwap(key, old, new)
}
func (m *Map) CompareAndDelete(key, old any) bool {
	simrt.Yield("Map.CompareAndDelete")
	return m.m.CompareAndDelete(key, old)
}

func (m *Map) Range(f func(key, value any) bool) {
	simrt.Yield("Map.Range")
	type kv struct {
		k, v any
		s    string
	}
	var all []kv
	m.m.Range(func(k, v any) bool {
		all = append(all, kv{k, v, simrt.KeyString(k)})
		return true
	})
	sort.Slice(all, func(i, j int) bool { return all[i].s < all[j].s })
	simrt.Permute(len(all), func(i, j int) { all[i], all[j] = all[j], all[i] })
	for _, e := range all {
		if v, ok := m.m.Load(e.k); ok {
			if !f(e.k, v) {
				return
			}
		}
	}
}

// Pool is a deterministic pool.  Whether a Put item is kept is a plan choice
// ("the GC dropped it"); Put->Get of the same object keeps the happens-before
// edge the real pool provides.
type Pool struct {
	New   func() any
	items []any
}

var poolRaceHash [128]uint64

func poolRaceAddr(x any) unsafe.Pointer {
	ptr := uintptr((*[2]unsafe.Pointer)(unsafe.Pointer(&x))[1])
	h := uint32((uint64(uint32(ptr)) * 0x85ebca6b) >> 16)
	return unsafe.Pointer(&poolRaceHash[h%uint32(len(poolRaceHash))])
}

//go:norace
func (p *Pool) Put(x any) {
	if x == nil {
		return
	}
	if simrt.Cur() == nil && simrt.S != nil {
		// after the run was killed: drop
		return
	}
	if simrt.PoolDrop() {
		return
	}
	simrt.RaceReleaseMerge(poolRaceAddr(x))
	p.items = append(p.items, x)
}

//go:norace
func (p *Pool) Get() any {
	if n := len(p.items); n > 0 {
		x := p.items[n-1]
		p.items[n-1] = nil
		p.items = p.items[:n-1]
		simrt.RaceAcquire(poolRaceAddr(x))
		simrt.PoolHit()
		return x
	}
	if p.New != nil {
		return p.New()
	}
	return nil
}

var _ = fmt.Sprint
