#!/bin/bash
# accept_seed2.sh <Cxx> : verifies round-2 deliveries (m4, m5) of one property and files the confirmed ones under seeded/.
P=$1
for M in ${MUTS:-m4 m5}; do
  SRC=${SEEDROOT:-/tmp/seedout2}/$P/$M
  [ -f $SRC/patch.diff ] || { echo "$P $M: no delivery"; continue; }
  SEEDOUT=${SEEDROOT:-/tmp/seedout2} /verif/tools/verify_seed.sh $P $M >/dev/null
  python3 - "$P" "$M" "${SEEDROOT:-/tmp/seedout2}" "${ROUND:-round 2}" <<'PY'
import json,sys,os,shutil
P,M,ROOT,ROUND=sys.argv[1:5]
src=f'{ROOT}/{P}/{M}'
v=json.load(open(src+'/verified.json'))
ok=v['applies'] and v['suite_with_patch'] and v['demo_fails_with_patch'] and v['demo_passes_without']
print(P,M,'CONFIRMED' if ok else 'REJECTED',v)
if ok:
    dst=f'/verif/seeded/{P}-{M}'
    shutil.rmtree(dst,ignore_errors=True); os.makedirs(dst)
    shutil.copy(src+'/patch.diff',dst+'/patch.diff')
    shutil.copytree(src+'/demo',dst+'/demo')
    m=json.load(open(src+'/meta.json'))
    out={'id':f'{P}-{M}','property':P,'summary':m.get('summary'),'needs_to_manifest':m.get('needs_to_manifest'),'files_changed':m.get('files_changed'),
     'origin':ROUND+': written by a fresh sub-agent that was given only the property text, the list of sites already attacked in earlier rounds, and a scratch worktree of /repo at 37e460e (nothing from /verif)',
     'confirmed_by_me':{'how':'tools/verify_seed.sh in a scratch worktree of /repo: git apply; full suite `GOPROXY=off go test -mod=mod -vet=off -count=1 ./...` passes with the change; demonstration fails with the change and passes without it',
       'demo_cmd':v['demo_cmd'],'applies':True,'suite_passes_with_patch':True,'demo_fails_with_patch':True,'demo_passes_without_patch':True}}
    json.dump(out,open(dst+'/meta.json','w'),indent=1)
PY
done
git -C /repo worktree remove --force /tmp/wt/${P}${WTSUF:-r2} 2>/dev/null; rm -rf /tmp/wt/${P}${WTSUF:-r2}
