#!/usr/bin/env python3
"""Generates /verif/MANIFEST.json from the table below (kept in one place so the
manifest stays valid while checks are added)."""
import json, os
CLAIMED = {
 # id: (technique, level text, level note, design ref)
 "C03": ("deterministic simulation: seeded arrival/fault plans + scheduler-placed ticks vs. reference receive-set model (version window)",
         "Seeded exploration: thousands of simulated runs of the real NACK generator (loss, duplication, reordering, late packets, jumps <2^15, wrap, reader errors, 1-3 SSRCs, all option settings) with every tick/arrival interleaving chosen by the simulator; each emitted NACK is expanded independently and compared for exact set equality with an unbounded-memory reference model at some version inside the window the writing goroutine could have observed.",
         "Trusted: pion/rtcp NACK pair marshalling types (pairs are expanded by the oracle itself), the overlay rewrite, the reference model. Sampling, not proof.", "DESIGN.md §5 C03"),
 "C15": ("deterministic simulation: seeded concurrent writers under the simrt scheduler with -race, stalled downstream writers, conservation oracle over assigned numbers",
         "Seeded exploration with the race detector on: 1-6 writer goroutines on 1-5 streams (negotiated or not, ids 1-14, one-/two-byte profiles, pre-existing extensions, callers reusing header objects, stalled downstream writers), every interleaving at atomic/yield points chosen by the simulator; at the end the multiset of assigned transport-wide numbers must be one consecutive run mod 2^16 (runs of >65536 packets included), every other header field and the payload must equal the caller's packet, non-negotiated streams untouched; any data race is a deterministic, replayable verdict.",
         "Trusted: pion/rtp header (un)marshalling of the extension, the race detector, the overlay rewrite. Sampling, not proof.", "DESIGN.md §5 C15"),
 "C18": ("deterministic simulation: faulty-link push orders x consumer operations on a simulated clock vs. executable reference buffer model (pointer identity), plus the interceptor read path; real-time watchdog for CPU loops",
         "Seeded exploration: push orders derived from a sender stream through a lossy/duplicating/reordering link (incl. the 2^16 wrap) interleaved with Pop/PopAtSequence/PopAtTimestamp/Peek/PeekAtSequence/SetPlayoutHead/Clear for all minimum-start counts; every result is compared operation by operation with a reference model (which packet objects are buffered, which were returned, acceptable playout heads); the ReceiverInterceptor read path is checked for byte-exact, consecutive emission; runs that never finish are caught by a watchdog and reported as hangs.",
         "Trusted: the reference model (it accepts either behaviour where the statement is silent: head after Clear / after PopAtSequence). The JitterBuffer API is driven from one goroutine (its own mutex serialises it; concurrent use is covered by C10). Sampling, not proof.", "DESIGN.md §5 C18"),
 "C07": ("deterministic simulation: seeded send histories + tick placement + clock jumps under the simrt scheduler vs. reference sender model (version window), exact NTP conversion",
         "Seeded exploration of the real SenderInterceptor: 1-3 streams and clock rates, sequence/timestamp wraps, multi-packet frames, out-of-order and gapped sends, pauses up to hours on the fake clock, failing downstream writer, both use-latest-packet settings, report ticks from the real ticker or placed at chosen instants (colliding with sends), jumps of the supplied clock; every sender report must equal the reference (packet count, octet count, NTP = exact integer conversion of the instant the library sampled, RTP time = reference timestamp + floor(elapsed x rate) +-1) at some version inside the window the reporting goroutine could have observed.",
         "Trusted: pion/rtcp SenderReport type (fields read directly, no wire round trip), the reference model; one writer goroutine per stream (same-stream concurrency is C10). Packet-count wrap (2^32 packets) is out of reach. Sampling, not proof.", "DESIGN.md §5 C07"),
 "C06": ("deterministic simulation: faulty-link reception histories + sender reports + scheduler-placed report ticks + clock jumps vs. RFC 3550 reference receiver (version window, state-set tracking)",
         "Seeded exploration of the real ReceiverInterceptor: 1-3 streams/clock rates, loss, duplication, reordering, sequence wrap and jumps, RTP timestamps crossing 2^32, failing reader, sender reports for matching and foreign SSRCs (incl. NTP with zero middle bits) on the RTCP read path, jumps of the supplied clock, report ticks colliding with arrivals; each reception report must equal an RFC 3550 reference receiver (extended highest sequence, floor(256 lost/expected), saturated cumulative loss, A.8 jitter on wrap-safe 32-bit differences +-1, LSR/DLSR +-1) at some version within the window the reporting goroutine could have observed; the set of possible previous-report states is tracked exactly.",
         "Trusted: pion/rtcp types (fields read directly) and rtcp.Marshal for the injected sender reports; the reference model. One open known finding (report interval spanning >8192 sequence numbers) is listed in known_findings.json. Sampling, not proof.", "DESIGN.md §5 C06"),
 "C05": ("deterministic simulation: seeded (sequence number, arrival time) histories from a faulty link, arbitrarily interleaved builds; interceptor path under the simrt scheduler; independent wire decoder + record-log oracle",
         "Seeded exploration of twcc.Recorder (direct, incl. non-monotone arrival clocks) and of the real twcc.SenderInterceptor (reader goroutine, hand-off channel, ticker on the fake clock, failing reader): loss bursts, duplicates, reordering before/after a build, jumps across the 2^16 wrap and beyond 2^15, arrival gaps up to an hour (delta overflow, negative deltas, 64 ms reference rounding). Every emitted feedback is marshalled and decoded by an independent decoder written from the draft (length, padding, one status per number, one delta per received status; pion's Unmarshal must agree), then compared with the record log: received => a recorded first-copy arrival within 125us mod 2^24*64ms; not received => every record of that number could legitimately have left the 500 ms history; everything recorded since the previous build is reported; ranges of one build consecutive; feedback counter +1 per packet.",
         "Trusted: the independent decoder and record-log model; a gap between packets of one build is accepted only when more than 0x7FFE numbers are missing (the format cannot describe them); a duplicate is retained/forgotten with its first copy. Sampling, not proof.", "DESIGN.md §5 C05"),
 "C08": ("deterministic simulation: seeded arrival histories over 1-5 SSRCs from a faulty link, report builds placed anywhere with any maximum size; interceptor path under the simrt scheduler with clock jumps; independent RFC 8888 decoder + reference stream model",
         "Seeded exploration of rfc8888.Recorder.BuildReport (direct, all maximum sizes incl. ones that cannot hold the headers, report clock before/after arrival clock) and of the real rfc8888.SenderInterceptor (reader goroutine, unbuffered hand-off, ticker on the fake clock, SenderNow with jumps, failing reader): loss, reordering, duplicates, wrap, gaps up to 70 s. Each report is marshalled, decoded by an independent decoder written from RFC 8888 (pion's Unmarshal must agree) and compared per stream with a reference model: contiguous range ending at the highest received number, received <=> first copy arrived and not yet acknowledged in a gap-free prefix, offset = floor(1024 x (report - first arrival)) by exact integer arithmetic with 0x1FFE/0x1FFF, never received->lost, omissions only as truncation by the size limit (newest kept), marshalled size <= maximum whenever it can hold the per-stream headers.",
         "Trusted: the independent decoder and the reference model; an offset one unit low is accepted only when 1024 x elapsed is an exact integer (float floor); a stream's outstanding packets may be dropped when its equal share of the budget is at most one report. Sampling, not proof.", "DESIGN.md §5 C08"),
 "C04": ("deterministic simulation with -race: writers x per-NACK resend goroutines x Unbind/Close under the simrt scheduler, plan-controlled pool recycling, stalled downstream writer, callers scribbling their buffers; history oracle (deep-copy equality + retransmittable-interval rule)",
         "Seeded exploration with the race detector on: 1-3 local streams (RTX or not, three padding forms, sizes 1..32768, DisableCopy), writer goroutines that scribble header/payload/CSRC/extension bytes as soon as Write returns, 1-2 RTCP read loops delivering NACKs (sent, never-sent, out-of-window, foreign, repeated numbers), a lifecycle goroutine (Unbind/Close), every interleaving at lock/yield points and whether a released pool buffer is recycled chosen by the plan. Every retransmission must equal the harness's deep copy of the original (plain or RFC 4588 form); per requested number: exactly m retransmissions if it was retransmittable during the whole handling of the NACK, none if it never was, either otherwise (unwrapped sequence arithmetic).",
         "Trusted: the history oracle, rtcp.Marshal for the injected NACKs, the race detector. One open known finding (DisableCopy ignores negotiated RTX). Sampling, not proof.", "DESIGN.md §5 C04"),
 "C17": ("deterministic simulation: concurrent writers x the pacer's timer goroutine under the simrt scheduler on the fake clock, mid-stream SetRate, slow next writer, callers scribbling after return; exactly-once/FIFO/intact history oracle + token-bucket envelope + bounded liveness",
         "Seeded exploration of pacing.Interceptor, gcc.LeakyBucketPacer and gcc.NoOpPacer: 1-3 streams, 1-4 writer goroutines (also two on one stream), all header shapes and payloads 0..1460, callers overwriting header/CSRC/extension/payload bytes right after Write returns, rate changes mid-stream, next writer that yields or stalls before reading what it was handed. Oracles over the recorded history: every accepted packet delivered exactly once to its own stream's writer with the header and payload it had when accepted; delivery order is a linearisation of the per-stream FIFO (real-time order, single consumer); for the token-bucket interceptor cumulative released bits <= largest burst in force + integral of the rate; after the writers stop everything accepted is delivered within queued-bits/rate plus a few intervals.",
         "Trusted: the history oracle; the burst allowance is taken as the documented bucket size max(1500 bytes, rate x interval). One open known finding (packet not smaller than the burst blocks the queue). porcupine is not needed: with a single consumer the real-time-order check is exact. Sampling, not proof.", "DESIGN.md §5 C17"),
 "C14": ("deterministic simulation: FEC interceptor with 1-3 concurrent streams sharing the encoder's scratch pool under the simrt scheduler, callers reusing buffers, single-loss dropping link + independent FlexFEC-03 decoder; direct EncodeFec batch histories with changing (k, n)",
         "Seeded exploration of flexfec.FecInterceptor (concurrent writer goroutines, yielding next writer, callers overwriting header/CSRC/extension/payload bytes after Write) and of FlexEncoder03.EncodeFec over successive batches with changing media/FEC counts through one encoder: batches of 1..110 packets, 0..110 FEC packets, base sequence numbers incl. the wrap, all header shapes (CSRC, one-/two-byte extensions, three padding forms, marker, PT), payloads 0..1500. An independent decoder written from the FlexFEC-03 draft parses every repair packet; for each repair packet and each choice of one missing covered packet (all choices for groups <= 16) XOR recovery must reproduce the original packet byte for byte (serialised by the harness, not by rtp.Packet.Marshal); every media packet is covered; the mask names only packets of the batch; repair packets carry the FEC SSRC/PT with consecutive sequence numbers; media passes first and unmodified.",
         "Trusted: the independent decoder/recovery procedure and the harness serialisation of the originals. One open known finding (110-packet batches exceed the 109-bit mask). Most of the reach comes from header-shape and batch-history generation; the schedule dimension matters for the shared scratch pool and caller reuse only. Sampling, not proof.", "DESIGN.md §5 C14"),
}
NA = {
 "C20": "pure single-threaded functions of their inputs (sequence unwrapping, NTP conversion): no schedule, clock, fault, I/O or second party for a simulator to control; deciding them is input enumeration/property-based testing, a different technique (they run as real code inside the C05/C07/C08/C09/C19 scenarios).",
}
ALL = ["C%02d" % i for i in range(1, 21)]
checks = []
for pid in ALL:
    if pid in CLAIMED:
        tech, text, note, ref = CLAIMED[pid]
        checks.append({
            "property_id": pid,
            "quick_cmd": "./bin/check run %s --tier quick" % pid,
            "thorough_cmd": "./bin/check run %s --tier thorough" % pid,
            "evidence_file": "/verif/evidence/%s.json" % pid,
            "replay_cmd_template": "./bin/check replay {path}",
            "engine": "simrt",
            "level_claimed": {"category": "exploration", "text": text, "design_ref": ref},
            "level_note": note,
            "technique": tech,
        })
na = []
for pid in ALL:
    if pid not in CLAIMED:
        na.append({"property_id": pid, "reason": NA.get(pid, "check not built yet in this session (work in progress; see DESIGN.md §5 for the planned simulation) - not claimed")})
m = {
 "version": 1,
 "setup_cmd": "./setup.sh",
 "hooks": {
  "guard": "none - build-time overlay (go build -overlay); no hook source is committed to /repo",
  "enable": "bin/check instruments /repo's working tree into a scratch directory (bin/instrument) and compiles the worker with go1.26.8 test -c -overlay=<scratch>/overlay.json",
  "baseline_off_cmd": "cd /repo && GOPROXY=off go test -mod=mod -vet=off -count=1 ./...",
  "source_commits": [],
  "add_only": True,
 },
 "engines": [{"name": "simrt", "path": "/verif/simrt, /verif/cmd/instrument, /verif/cmd/check, /verif/props", "serves_properties": sorted(CLAIMED), "kind_free_text": "deterministic simulation with fault injection: seeded cooperative scheduler at synchronisation-point granularity inside a testing/synctest bubble (fake clock), overlay-instrumented copy of the real library, harness network/application/disk with injected faults, reference-model oracles, plan minimisation and exact replay"}],
 "checks": checks,
 "not_applicable": na,
 "notes": "Exit codes of bin/check: 0 held (KNOWN-FINDING lines for open findings in known_findings.json), 1 VIOLATION, 2 tooling trouble. VERIF_SEED selects the base seed; VERIF_TIER is honoured when --tier is absent.",
}
json.dump(m, open(os.path.join(os.path.dirname(__file__), "..", "MANIFEST.json"), "w"), indent=1)
print("claimed:", sorted(CLAIMED))
