#!/bin/bash
# run_all.sh [tier] : runs every claimed check in turn, prints one summary line each.
TIER=${1:-quick}; shift
cd /verif
for p in $(python3 -c "import json;print(' '.join(c['property_id'] for c in json.load(open('MANIFEST.json'))['checks']))" 2>/dev/null || echo C01 C02 C03 C04 C05 C06 C07 C08 C09 C10 C11 C12 C13 C14 C15 C16 C17 C18 C19); do
  out=$(./bin/check run $p --tier $TIER "$@" 2>&1); rc=$?
  echo "$p exit=$rc $(echo "$out" | grep '^check ' | tail -1)"
  echo "$out" | grep "^VIOLATION\|^KNOWN-FINDING" | sed 's/^/    /' | cut -c1-220
done
