#!/bin/bash
# try_mutant.sh <patch.diff> <PROP> [extra check args]: applies the change to /repo, runs the check, reverts.
PATCH=$1; PROP=$2; shift 2
cd /repo && git apply "$PATCH" || { echo "patch does not apply"; exit 3; }
cd /verif && ./bin/check run $PROP "$@"; RC=$?
git -C /repo checkout -- . ; git -C /repo status --short | head -3
echo "exit=$RC"
