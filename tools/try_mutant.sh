#!/bin/bash
# try_mutant.sh <patch.diff> <PROP> [extra check args]: applies the change to /repo, runs the check, reverts.
PATCH=$(realpath $1); PROP=$2; shift 2
cd /repo && (git apply "$PATCH" 2>/dev/null || git apply --3way "$PATCH" 2>/dev/null) || { git -C /repo reset -q --hard HEAD; git -C /repo clean -fdq; echo "patch does not apply"; exit 3; }
if git -C /repo status --short | grep -q "^UU"; then git -C /repo reset -q --hard HEAD; git -C /repo clean -fdq; echo "patch conflicts"; exit 3; fi
cd /verif && ./bin/check run $PROP "$@"; RC=$?
git -C /repo reset -q --hard HEAD; git -C /repo clean -fdq; git -C /repo status --short | head -3
echo "exit=$RC"
