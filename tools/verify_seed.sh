#!/bin/bash
# verify_seed.sh <Cxx> <mN> : confirms a seeded change in a scratch worktree:
#   applies, builds, full suite passes with it, demo fails with it, demo passes without it.
# Writes /tmp/seedout/<Cxx>/<mN>/verified.json ; removes the worktree afterwards.
P=$1; M=$2
SRC=${SEEDOUT:-/tmp/seedout}/$P/$M
WT=/tmp/vw/$P-$M
mkdir -p /tmp/vw
git -C /repo worktree remove --force $WT >/dev/null 2>&1
git -C /repo worktree add --detach $WT HEAD >/dev/null 2>&1 || { echo "$P $M worktree-failed"; exit 1; }
cd $WT
res() { echo "{\"property\":\"$P\",\"mutant\":\"$M\",\"applies\":$1,\"suite_with_patch\":$2,\"demo_fails_with_patch\":$3,\"demo_passes_without\":$4,\"demo_cmd\":$(python3 -c 'import json,sys;print(json.dumps(sys.argv[1]))' "$DEMO")}" > $SRC/verified.json; cat $SRC/verified.json; cd /; git -C /repo worktree remove --force $WT >/dev/null 2>&1; }
DEMO=$(python3 -c "import json;print(json.load(open('$SRC/meta.json'))['demo_cmd'])")
# normalise demo command: strip leading cd <wt> &&
DEMO=$(echo "$DEMO" | sed -E 's#cd /tmp/wt/[A-Za-z0-9]+ *&& *##')
if ! git apply $SRC/patch.diff 2>/dev/null; then res false false false false; exit 0; fi
SUITE=true
GOPROXY=off go test -mod=mod -vet=off -count=1 ./... >/tmp/vw/$P-$M.suite.log 2>&1 || SUITE=false
cp -r $SRC/demo/. $WT/
DF=false
timeout 600 bash -c "$DEMO" >/tmp/vw/$P-$M.demo_with.log 2>&1 || DF=true
git apply -R $SRC/patch.diff
DP=true
timeout 600 bash -c "$DEMO" >/tmp/vw/$P-$M.demo_without.log 2>&1 || DP=false
res true $SUITE $DF $DP
